"""Entry point behind ./check (see that script for the environment it sets)."""

import argparse
import importlib
import os
import sys

ENGINES = {
    "C05": "engines.c05",
    "C06": "engines.c06",
    "C07": "engines.c07",
    "C09": "engines.c09",
    "C10": "engines.c10",
    "C11": "engines.c11",
    "C12": "engines.c12",
    "C14": "engines.c14",
    "C08": "engines.c08",
    "C16": "engines.c16",
    "C19": "engines.c19",
    "C20": "engines.c20",
    "C13": "engines.c13",
}


def main():
    ap = argparse.ArgumentParser()
    ap.add_argument("prop")
    ap.add_argument("--tier", default=os.environ.get("VERIF_TIER", "quick"), choices=("quick", "thorough"))
    ap.add_argument("--replay")
    ap.add_argument("--runs", type=int)
    ap.add_argument("--wall", type=float)
    ap.add_argument("--jobs", type=int, default=int(os.environ.get("VERIF_JOBS", os.cpu_count() or 4)))
    a = ap.parse_args()
    seed = int(os.environ.get("VERIF_SEED", "0"))
    dump = os.environ.get("VERIF_DUMP")
    if a.prop not in ENGINES:
        print(f"unknown property {a.prop}; have {sorted(ENGINES)}")
        return 2
    from simkit import runner

    eng = importlib.import_module(ENGINES[a.prop]).ENGINE
    print(f"[{a.prop}] VERIF_SEED={seed} tier={a.tier} jobs={a.jobs} repo={os.environ.get('VERIF_REPO')} hashseed={os.environ.get('PYTHONHASHSEED')}")
    sys.stdout.flush()
    if dump:
        eng.warmup()
        os.environ["VERIF_DUMP"] = dump
    if a.replay:
        return runner.do_replay(eng, a.replay)
    return runner.main_check(eng, a.tier, seed, a.jobs, a.runs, a.wall)


if __name__ == "__main__":
    sys.exit(main())
