"""SimProc: the stub for child processes (DESIGN.md 2.4).

A SimProc is a kernel task of kind 'proc' with a fake pid, a process group, dup()s of
the three descriptors a forked child would keep, and a scripted behaviour.  It follows
POSIX on EOF, EPIPE/SIGPIPE, wait statuses, stop/continue and process groups.
"""

import errno
import os
import select
import signal
import subprocess as _sp

from . import kernel as _k
from . import simos

_RealPopen = _sp.Popen

# world registry, reset per run -------------------------------------------------
BEHAVIOURS = {}  # basename -> callable(proc) ; default behaviours installed below
SCRIPTS = {}  # script id -> list of actions
PAYLOADS = {}  # payload key -> bytes
STARTED = []  # (pid, argv, resolved_path) in spawn order
ALL = []  # every SimProc of the run
_CHILD_CTX = []  # the child whose preexec_fn is running


class _Killed(BaseException):
    pass


def reset_world():
    SCRIPTS.clear()
    PAYLOADS.clear()
    STARTED.clear()
    ALL.clear()
    del _CHILD_CTX[:]


def _fd_of(x, default):
    if x is None:
        return default
    if isinstance(x, int):
        if x == _sp.DEVNULL:
            return None
        if x == _sp.PIPE:
            raise NotImplementedError("SimProc: PIPE not supported (xonsh never passes it)")
        return x
    return x.fileno()


def resolve_exec(name, env):
    """execvp(3) emulation over the child's PATH.  Returns path or raises like Popen."""
    if "/" in name:
        cands = [name]
    else:
        path = (env or {}).get("PATH", os.defpath)
        cands = [os.path.join(d or ".", name) for d in path.split(os.pathsep)]
    eacces = False
    for c in cands:
        try:
            st = os.stat(c)
        except OSError as e:
            if e.errno == errno.EACCES:
                eacces = True
            continue
        import stat as _stat

        if _stat.S_ISDIR(st.st_mode):
            eacces = True
            continue
        if os.access(c, os.X_OK):
            return c
        eacces = True
    if eacces:
        raise PermissionError(errno.EACCES, "Permission denied", name)
    raise FileNotFoundError(errno.ENOENT, "No such file or directory", name)


class SimPopen:
    """Popen look-alike backed by a kernel task."""

    def __init__(
        self,
        args,
        bufsize=-1,
        executable=None,
        stdin=None,
        stdout=None,
        stderr=None,
        preexec_fn=None,
        close_fds=True,
        shell=False,
        cwd=None,
        env=None,
        universal_newlines=None,
        startupinfo=None,
        creationflags=0,
        restore_signals=True,
        start_new_session=False,
        pass_fds=(),
        **kw,
    ):
        k = _k.K
        t = simos.TABLE
        if isinstance(args, (str, bytes)):
            args = [args]
        self.args = list(args)
        self.env = dict(env) if env is not None else dict(os.environ)
        self.path = resolve_exec(self.args[0], self.env)  # may raise ENOENT/EACCES
        self.name = os.path.basename(self.path)
        self.returncode = None
        self.universal_newlines = bool(universal_newlines)
        self.text_mode = self.universal_newlines
        self.stdin = self.stdout = self.stderr = None
        self.pid = t.alloc_pid()
        self.pgid = t.shell_pgid
        self.status = None  # >=0 exit code, <0 -signal, None running
        self.reaped = False
        self.stopped = False
        self.stop_pending = False
        self.stop_sig = 0
        self.pending_kill = None
        self.sigpipe_ignored = False
        self.received = bytearray()
        self.wrote = {1: 0, 2: 0}
        self.background = False
        fin = _fd_of(stdin, 0)
        fout = _fd_of(stdout, 1)
        ferr = fout if stderr == _sp.STDOUT else _fd_of(stderr, 2)
        self.fds = {}
        for n, fd in ((0, fin), (1, fout), (2, ferr)):
            if fd is None:
                self.fds[n] = os.open(os.devnull, os.O_RDWR)
            else:
                self.fds[n] = os.dup(fd)
        if preexec_fn is not None:
            _CHILD_CTX.append(self)
            try:
                preexec_fn()
            finally:
                _CHILD_CTX.pop()
        t.procs[self.pid] = self
        ALL.append(self)
        STARTED.append((self.pid, list(self.args), self.path))
        k.note(f"exec:{self.pid}:{self.name}")
        beh = BEHAVIOURS.get(self.name, _beh_script)
        self._rec = k.spawn(lambda: self._body(beh), f"proc-{self.name}", "proc")

    # ------------------------------------------------------------------ body
    def _body(self, beh):
        code = 0
        try:
            r = beh(self)
            code = 0 if r is None else int(r)
        except _Killed:
            code = -int(self.pending_kill)
        except BrokenPipeError:
            code = -int(signal.SIGPIPE)
        except _k.SimExit:
            raise
        finally:
            for fd in self.fds.values():
                try:
                    os.close(fd)
                except OSError:
                    pass
            self.fds.clear()
            self.status = code
            self.stopped = False
            if _k.K is not None:
                _k.K.note(f"exit:{self.pid}:{code}")

    # ------------------------------------------------------------------ child-side primitives
    def _check(self):
        k = _k.K
        while True:
            if self.pending_kill is not None:
                raise _Killed()
            if not self.stopped:
                return
            k.block(lambda: not self.stopped or self.pending_kill is not None, None, "stopped")

    def c_block(self, pred, timeout=None, why="cwait"):
        self._check()
        ok = _k.K.block(
            lambda: pred() or self.pending_kill is not None or self.stopped, timeout, why
        )
        self._check()
        return ok and pred()

    def c_sleep(self, d):
        k = _k.K
        end = k.now + d
        while k.now < end:
            self.c_block(lambda: False, end - k.now, "csleep")

    def c_write(self, n, data):
        """write(2) on the child's descriptor n (1 or 2), whole buffer, EPIPE -> SIGPIPE."""
        fd = self.fds[n]
        mv = memoryview(bytes(data))
        while len(mv):
            self._check()
            try:
                w = os.write(fd, mv)
            except BlockingIOError:
                simos.STATS["wr_block"] += 1

                def ready():
                    try:
                        return bool(select.select([], [fd], [], 0)[1])
                    except (OSError, ValueError):
                        return True

                if not self.c_block(ready, None, "cwrwait"):
                    continue
                try:
                    w = os.write(fd, mv)
                except BlockingIOError:
                    try:
                        w = os.write(fd, mv[:512])
                    except BlockingIOError:
                        self.c_block(lambda: False, 1e-5, "cwrwait")
                        continue
            except BrokenPipeError:
                simos.STATS["epipe"] += 1
                if self.sigpipe_ignored:
                    raise OSError(errno.EPIPE, "Broken pipe") from None
                self.pending_kill = signal.SIGPIPE
                raise _Killed() from None
            except OSError as e:
                if e.errno == errno.EIO:  # pty master gone
                    self.pending_kill = signal.SIGHUP
                    raise _Killed() from None
                raise
            self.wrote[n] = self.wrote.get(n, 0) + w
            mv = mv[w:]
            _k.K.point("cwrite")

    def c_read(self, n):
        """read(2) on the child's stdin; b'' at EOF."""
        fd = self.fds[0]
        while True:
            self._check()
            try:
                b = os.read(fd, n)
                _k.K.point("cread")
                return b
            except BlockingIOError:
                simos.STATS["rd_block"] += 1

                def ready():
                    try:
                        return bool(select.select([fd], [], [], 0)[0])
                    except (OSError, ValueError):
                        return True

                self.c_block(ready, None, "crdwait")
            except OSError as e:
                if e.errno == errno.EIO:
                    return b""
                raise

    def c_close(self, n):
        fd = self.fds.pop(n, None)
        if fd is not None:
            os.close(fd)

    def stop_self(self, sig):
        self.deliver(sig)
        self._check()

    # ------------------------------------------------------------------ kernel-side signal delivery
    def deliver(self, sig):
        sig = int(sig)
        if self.status is not None:
            return
        _k.K.note(f"sig:{self.pid}:{sig}")
        if sig == signal.SIGCONT:
            self.stopped = False
            self.stop_pending = False
            return
        if sig in (signal.SIGSTOP, signal.SIGTSTP, signal.SIGTTIN, signal.SIGTTOU):
            self.stopped = True
            self.stop_pending = True
            self.stop_sig = sig
            return
        if sig in (signal.SIGWINCH, signal.SIGCHLD, signal.SIGURG, 0):
            return
        if sig == signal.SIGKILL or self.pending_kill is None:
            self.pending_kill = sig
            if sig == signal.SIGKILL:
                self.stopped = False

    # ------------------------------------------------------------------ Popen API
    def poll(self):
        if self.returncode is None:
            if self.reaped:
                self.returncode = 0  # ECHILD: somebody else reaped it (CPython behaviour)
            elif self.status is not None:
                self.reaped = True
                self.returncode = self.status
        k = _k.K
        if k is not None and k.active and k.me() is not None:
            k.point("poll")
        return self.returncode

    def wait(self, timeout=None):
        if self.returncode is not None:
            return self.returncode
        k = _k.K
        ok = k.block(lambda: self.status is not None or self.reaped, timeout, "pwait")
        if not ok:
            raise _sp.TimeoutExpired(self.args, timeout)
        return self.poll()

    def communicate(self, input=None, timeout=None):
        self.wait(timeout)
        return None, None

    def send_signal(self, sig):
        self.poll()
        if self.returncode is None:
            self.deliver(sig)

    def terminate(self):
        self.send_signal(signal.SIGTERM)

    def kill(self):
        self.send_signal(signal.SIGKILL)

    def __enter__(self):
        return self

    def __exit__(self, *a):
        self.wait()


def popen_dispatch(*a, **kw):
    k = _k.K
    if k is not None and k.active and k.me() is not None:
        return SimPopen(*a, **kw)
    return _RealPopen(*a, **kw)


class PopenDispatcher:
    """Installed as subprocess.Popen before xonsh is imported."""

    __name__ = "Popen"
    __qualname__ = "Popen"
    __module__ = "subprocess"

    def __call__(self, *a, **kw):
        return popen_dispatch(*a, **kw)

    def __instancecheck__(self, inst):
        return isinstance(inst, (SimPopen, _RealPopen))


# ---------------------------------------------------------------------- child-context os calls
def sim_setpgrp():
    if _CHILD_CTX:
        c = _CHILD_CTX[-1]
        c.pgid = c.pid
    # shell itself: no-op


def sim_setpgid(pid, pgid):
    if _CHILD_CTX and pid == 0:
        c = _CHILD_CTX[-1]
        c.pgid = pgid if pgid else c.pid
        return
    t = simos.TABLE
    p = t.procs.get(pid)
    if p is None:
        raise ProcessLookupError(errno.ESRCH, "No such process")
    p.pgid = pgid if pgid else p.pid


def sim_signal(signum, handler):
    if _CHILD_CTX:
        return signal.SIG_DFL
    return signal.signal(signum, handler)


simos.SIM_OS.setpgrp = sim_setpgrp
simos.SIM_OS.setpgid = sim_setpgid
SIM_SIGNAL = _k.ModProxy(signal, signal=sim_signal)


# ---------------------------------------------------------------------- scripted behaviour
def payload(spec):
    """Deterministic payload bytes from a small spec (kept small so cases stay readable)."""
    key = repr(sorted(spec.items()))
    b = PAYLOADS.get(key)
    if b is None:
        b = PAYLOADS[key] = make_payload(spec)
    return b


def make_payload(spec):
    cls = spec.get("cls", "lines")
    n = int(spec.get("n", 0))
    tag = int(spec.get("tag", 0))
    if n <= 0:
        return b""
    if cls == "lines":  # tagged ASCII lines, final newline
        out = bytearray()
        i = 0
        while len(out) < n:
            out += b"t%d:%06d:" % (tag, i) + b"abcdefghijklmnopqrstuvwxyz"[: (i * 7 + tag) % 23] + b"\n"
            i += 1
        out = out[:n]
        if spec.get("final_nl", True):
            out[-1:] = b"\n"
        elif out[-1:] == b"\n":
            out[-1:] = b"x"
        return bytes(out)
    if cls == "oneline":
        body = (b"t%d:" % tag + b"0123456789" * (n // 10 + 1))[: max(n - 1, 0)]
        return body + (b"\n" if spec.get("final_nl", True) else b"z")[: n - len(body)]
    if cls == "crlf":
        out = bytearray()
        i = 0
        while len(out) < n:
            out += b"t%d:%05d" % (tag, i) + (b"\r\n" if i % 3 else b"\r" if i % 2 else b"\n")
            i += 1
        out = out[:n]
        return bytes(out)
    if cls == "utf8":
        # multi-byte characters placed densely so that 1024-byte read boundaries split them
        units = ["é", "€", "𝄞", "a", "\n", "ü", "中"]
        out = bytearray()
        i = tag
        while len(out) < n:
            out += units[i % len(units)].encode()
            i += 3 if i % 5 else 1
        while True:
            try:
                bytes(out[:n]).decode("utf-8")
                break
            except UnicodeDecodeError:
                n -= 1
        return bytes(out[:n])
    if cls == "esc":
        out = bytearray()
        i = 0
        while len(out) < n:
            out += b"\x1b[%dmcol%d\x1b[0m \x01hid\x02 t%d:%d\n" % (31 + i % 7, i, tag, i)
            i += 1
        out = out[:n]
        # do not end inside an escape sequence
        cut = out.rfind(b"\n") + 1
        return bytes(out[:cut]) if cut else bytes(out[:n]).replace(b"\x1b", b"E").replace(b"\x01", b"A")
    if cls == "binary":
        x = (tag * 2654435761 + 12345) & 0xFFFFFFFF
        out = bytearray(n)
        for i in range(n):
            x = (x * 1103515245 + 12345) & 0x7FFFFFFF
            out[i] = (x >> 16) & 0xFF
        return bytes(out)
    raise ValueError(cls)


def _beh_script(proc):
    """Default behaviour: `name <script-id> [...]` runs SCRIPTS[script-id]."""
    sid = proc.args[1] if len(proc.args) > 1 else None
    script = SCRIPTS.get(sid)
    if script is None:
        return 0
    return run_script(proc, script)


def run_script(proc, script):
    for act in script:
        op = act[0]
        if op == "out":  # ["out", fdno, payload_spec, start, end, chunk]
            _, n, spec, start, end, chunk = act
            data = payload(spec)[start:end]
            i = 0
            chunk = max(int(chunk), 1)
            while i < len(data):
                proc.c_write(n, data[i : i + chunk])
                i += chunk
        elif op == "outb":  # ["outb", fdno, "literal text"]
            proc.c_write(act[1], act[2].encode("utf-8", "surrogateescape"))
        elif op == "sleep":
            proc.c_sleep(float(act[1]))
        elif op == "cat":  # ["cat", readsize, transform]
            rs = int(act[1])
            tr = act[2] if len(act) > 2 else None
            while True:
                b = proc.c_read(rs)
                if not b:
                    break
                proc.received += b
                if tr == "upper":
                    b = b.upper()
                proc.c_write(1, b)
        elif op == "readall":
            rs = int(act[1]) if len(act) > 1 else 4096
            while True:
                b = proc.c_read(rs)
                if not b:
                    break
                proc.received += b
        elif op == "read":  # read n bytes total then go on
            want = int(act[1])
            while want > 0:
                b = proc.c_read(min(want, 4096))
                if not b:
                    break
                proc.received += b
                want -= len(b)
        elif op == "headcopy":  # copy the first k bytes of stdin to stdout
            want = int(act[1])
            while want > 0:
                b = proc.c_read(min(want, 4096))
                if not b:
                    break
                proc.received += b
                want -= len(b)
                proc.c_write(1, b)
        elif op == "close":
            proc.c_close(int(act[1]))
        elif op == "exit":
            return int(act[1])
        elif op == "die":
            proc.pending_kill = int(act[1])
            raise _Killed()
        elif op == "stop":
            proc.stop_self(int(act[1]))
        elif op == "ignore_sigpipe":
            proc.sigpipe_ignored = True
        else:
            raise ValueError(f"unknown action {act!r}")
    return 0
