"""Engine base class: what a per-property world has to provide to the runner."""


class Engine:
    property_id = "C00"
    level = "exploration"
    uses_kernel = True
    budgets = {
        "quick": {"runs": 2000, "wall": 60, "min_runs": 200},
        "thorough": {"runs": 50000, "wall": 900, "min_runs": 400},
    }
    rule = ""
    state_measure = ""
    assumptions = []
    components = {"real": [], "stub": []}
    expected_probes = []

    def warmup(self):
        """Import xonsh from the working tree, install seams.  Once per process tree."""

    def gen_case(self, rng, tier, seed):
        raise NotImplementedError

    def run_case(self, case, tape, emit):
        raise NotImplementedError

    def cleanup_run(self, pid):
        """Remove whatever the run child with this pid left on disk."""
        import shutil

        from . import procworld

        shutil.rmtree(procworld.scratch_for(pid), ignore_errors=True)

    def case_valid(self, case):
        return True

    def simplify(self, case):
        return ()

    def extra_coverage(self, agg):
        return {}

    def on_child_signal(self, res, rec):
        """A run child killed by a signal.  Default: a violation of clause never.fatal."""
        return {
            "violations": [
                {
                    "clause": "never.fatal",
                    "msg": f"run child killed by signal {res['child_signal']}",
                    "sig": {"signal": res["child_signal"]},
                }
            ]
        }
