"""FaultFS: numbered file-system call sites with crash (os._exit) and failing-call injection.

Installed on a module by rebinding its `open`, `os` and `tempfile` names.  Every mutating
call is a numbered *site*; writes are numbered at the raw layer (one site per write(2) the
real code would issue) and can be torn at a byte offset.  Two fault models (DESIGN.md 2.5):
  crash:  at site k the process _exit()s before the call (writes: after a torn prefix)
  fail:   site k raises OSError(errno) / performs a short write
"""

import builtins
import errno as _errno
import io
import os
import tempfile

_real_open = builtins.open
_TMPNAME = __import__("re").compile(r"tmp\d{7}")


class Plan:
    """What to do at which site.  mode: None (record only) | 'crash' | 'fail' | 'short'."""

    def __init__(self, mode=None, site=None, tear=None, err=None):
        self.mode = mode
        self.site = site
        self.tear = tear
        self.err = err
        self.n = 0
        self.log = []
        self.fired = False
        self.versions_dir = None
        self.nver = 0

    def hit(self, what, fd=None, data=None, path=None):
        i = self.n
        self.n += 1
        # (names of temporary files contain the pid: not part of the site's identity)
        self.log.append([what, len(data) if data is not None else None, _TMPNAME.sub("tmp#", os.path.basename(path)) if path else None])
        if self.site != i or self.mode is None:
            return None
        self.fired = True
        if self.mode == "crash":
            if data is not None and self.tear is not None:
                k = _tear_len(self.tear, len(data))
                if k > 0:
                    os.write(fd, data[:k])
            os._exit(137)
        if self.mode == "fail":
            if what.startswith("sql"):
                import sqlite3

                raise sqlite3.OperationalError("disk I/O error (injected)")
            raise OSError(self.err, os.strerror(self.err), path)
        if self.mode == "short" and data is not None and len(data) > 1:
            return max(1, len(data) // 2)  # legal short write: caller must continue
        return None


def _tear_len(tear, n):
    if tear == "0":
        return 0
    if tear == "1":
        return min(1, n)
    if tear == "half":
        return n // 2
    if tear == "m1":
        return max(n - 1, 0)
    return 0


PLAN = Plan()


class FaultRaw(io.RawIOBase):
    def __init__(self, fd, path=None):
        super().__init__()
        self._fd = fd
        self._path = path
        self.name = path if path is not None else fd

    def writable(self):
        return True

    def readable(self):
        return False

    def seekable(self):
        return False

    def fileno(self):
        return self._fd

    def write(self, b):
        data = bytes(b)
        r = PLAN.hit("write", self._fd, data, self._path)
        if r is not None:
            return os.write(self._fd, data[:r])
        return os.write(self._fd, data)

    def close(self):
        if self.closed:
            return
        try:
            PLAN.hit("close", path=self._path)
        finally:
            super().close()
            try:
                os.close(self._fd)
            except OSError:
                pass


def _wrap_writer(fd, mode, encoding, errors, newline, path):
    raw = FaultRaw(fd, path)
    buf = io.BufferedWriter(raw)
    if "b" in mode:
        return buf
    return io.TextIOWrapper(buf, encoding=encoding, errors=errors, newline=newline)


def f_open(file, mode="r", buffering=-1, encoding=None, errors=None, newline=None, closefd=True, opener=None):
    if isinstance(file, (str, bytes, os.PathLike)) and any(c in mode for c in "wax+"):
        path = os.fspath(file)
        PLAN.hit("open-w", path=path)
        flags = os.O_WRONLY | os.O_CREAT
        if "w" in mode:
            flags |= os.O_TRUNC
        if "a" in mode:
            flags |= os.O_APPEND
        if "x" in mode:
            flags |= os.O_EXCL
        fd = os.open(path, flags, 0o666)
        return _wrap_writer(fd, mode, encoding, errors, newline, path)
    if isinstance(file, (str, bytes, os.PathLike)):
        PLAN.hit("open-r", path=os.fspath(file))
    return _real_open(file, mode, buffering, encoding, errors, newline, closefd, opener)


class OSProxy:
    def __getattr__(self, n):
        return getattr(os, n)

    def fdopen(self, fd, mode="r", buffering=-1, encoding=None, errors=None, newline=None, closefd=True, opener=None):
        if any(c in mode for c in "wax+"):
            PLAN.hit("fdopen")
            return _wrap_writer(fd, mode, encoding, errors, newline, None)
        return os.fdopen(fd, mode, buffering, encoding, errors, newline, closefd, opener)

    def replace(self, a, b, **kw):
        PLAN.hit("replace", path=os.fspath(b))
        if PLAN.versions_dir is not None:
            # dry run: remember every complete version an atomic replace delivers
            PLAN.nver += 1
            with _real_open(a, "rb") as src, _real_open(os.path.join(PLAN.versions_dir, f"{PLAN.nver:03d}-{os.path.basename(os.fspath(b))}"), "wb") as dst:
                dst.write(src.read())
        return os.replace(a, b, **kw)

    def rename(self, a, b, **kw):
        PLAN.hit("rename", path=os.fspath(b))
        return os.rename(a, b, **kw)

    def remove(self, a, **kw):
        PLAN.hit("remove", path=os.fspath(a))
        return os.remove(a, **kw)

    def unlink(self, a, **kw):
        PLAN.hit("unlink", path=os.fspath(a))
        return os.unlink(a, **kw)

    def makedirs(self, *a, **kw):
        return os.makedirs(*a, **kw)

    def write(self, fd, data):
        # a write(2) issued directly on a descriptor (not through a file object) is a site like any other:
        # it can fail, be short (the caller has to loop), or be the crash point with a torn prefix
        r = PLAN.hit("write", fd=fd, data=bytes(data), path=None)
        if r is not None:
            return os.write(fd, bytes(data)[:r])
        return os.write(fd, data)

    def fsync(self, fd):
        PLAN.hit("fsync")
        return os.fsync(fd)


class TmpProxy:
    def __init__(self):
        self.counter = 0
        # where temporary files go when the caller names no directory: a directory on ANOTHER file system than the data
        # (a tmpfs $TMPDIR is common), so that "write a temp file, then move it into place" is only atomic when the
        # temp file was created next to its target.  Set per run by the engine; None = the system default.
        self.other_fs_dir = None

    def __getattr__(self, n):
        return getattr(tempfile, n)

    def mkstemp(self, suffix=None, prefix=None, dir=None, text=False):
        PLAN.hit("mkstemp", path=dir)
        if dir is None and self.other_fs_dir is not None:
            os.makedirs(self.other_fs_dir, exist_ok=True)
            dir = self.other_fs_dir
        while True:
            # deterministic names, but - like the real mkstemp - never an existing one (a crashed writer leaves its
            # temporary file behind, and pids repeat modulo 1000)
            self.counter += 1
            name = os.path.join(dir or tempfile.gettempdir(), f"{prefix or 'tmp'}{os.getpid() % 1000:03d}{self.counter:04d}{suffix or ''}")
            try:
                fd = os.open(name, os.O_RDWR | os.O_CREAT | os.O_EXCL, 0o600)
            except FileExistsError:
                continue
            return fd, name


class ShutilProxy:
    """shutil as seen by the patched module: move / copy are call sites, and a move across file systems is what it is
    for the real shutil - a copy that truncates and refills the destination in place, then an unlink."""

    def __getattr__(self, n):
        import shutil

        return getattr(shutil, n)

    def _copy(self, src, dst):
        with _real_open(src, "rb") as f:
            data = f.read()
        fp = f_open(dst, "wb")  # site open-w: truncates the destination
        try:
            fp.write(data)  # site(s) write
        finally:
            fp.close()  # site close

    def move(self, src, dst, *a, **kw):
        PLAN.hit("move", path=os.fspath(dst))
        try:
            os.rename(src, dst)
            return dst
        except OSError as e:
            if e.errno != _errno.EXDEV:
                raise
        self._copy(src, dst)
        FS_OS.unlink(src)
        return dst

    def copyfile(self, src, dst, *a, **kw):
        PLAN.hit("copy", path=os.fspath(dst))
        self._copy(src, dst)
        return dst

    copy = copy2 = copyfile


FS_OS = OSProxy()
FS_TMP = TmpProxy()
FS_SHUTIL = ShutilProxy()
ERRNOS = (_errno.ENOSPC, _errno.EIO, _errno.EACCES, _errno.EMFILE, _errno.EROFS)


def install(module):
    done = []
    if hasattr(module, "os"):
        module.os = FS_OS
        done.append("os")
    if hasattr(module, "tempfile"):
        module.tempfile = FS_TMP
        done.append("tempfile")
    if hasattr(module, "shutil"):
        module.shutil = FS_SHUTIL
        done.append("shutil")
    module.open = f_open
    done.append("open")
    return done
