"""OS-level seams: non-blocking pipes/ptys with simulated blocking, process table calls.

Pipes and ptys created while a simulation is active are O_NONBLOCK; `read`/`write`
retry on EAGAIN by *simulated* blocking until select() reports readiness.  A read
that has to block first dup()s the descriptor, exactly as a thread blocked in
read(2) keeps the open file description alive when another thread closes the fd.
"""

import builtins
import errno
import fcntl
import io
import os
import select
import signal
import stat

from . import kernel as _k

_real_open = builtins.open
F_SETPIPE_SZ = 1031

PIPE_CAPACITY = [65536]  # knob, set per run
STATS = {"rd_block": 0, "wr_block": 0, "wr_partial": 0, "epipe": 0, "pipes": 0, "ptys": 0}


def _active():
    k = _k.K
    return k is not None and k.active and k.me() is not None


def sim_pipe():
    r, w = os.pipe()
    if _active():
        os.set_blocking(r, False)
        os.set_blocking(w, False)
        cap = PIPE_CAPACITY[0]
        if cap != 65536:
            try:
                fcntl.fcntl(w, F_SETPIPE_SZ, cap)
            except OSError:
                pass
        STATS["pipes"] += 1
        _k.K.note(f"pipe:{_k.K.fdn(r)},{_k.K.fdn(w)}")
    return r, w


def sim_openpty():
    import pty

    m, s = pty.openpty()
    if _active():
        os.set_blocking(m, False)
        os.set_blocking(s, False)
        STATS["ptys"] += 1
        _k.K.note(f"pty:{_k.K.fdn(m)},{_k.K.fdn(s)}")
    return m, s


def _rd_ready(fd):
    def pred():
        try:
            return bool(select.select([fd], [], [], 0)[0])
        except (OSError, ValueError):
            return True

    return pred


def _wr_ready(fd):
    def pred():
        try:
            return bool(select.select([], [fd], [], 0)[1])
        except (OSError, ValueError):
            return True

    return pred


def sim_read(fd, n):
    if not _active():
        return os.read(fd, n)
    k = _k.K
    try:
        r = os.read(fd, n)
        k.progress += 1
        k.point("read")
        return r
    except BlockingIOError:
        pass
    # would block: hold a reference to the open file description, like read(2) does
    STATS["rd_block"] += 1
    try:
        d = os.dup(fd)
    except OSError:
        raise OSError(errno.EBADF, "Bad file descriptor") from None
    try:
        while True:
            k.block(_rd_ready(d), None, "rdwait")
            try:
                r = os.read(d, n)
                k.progress += 1
                return r
            except BlockingIOError:
                continue
    finally:
        os.close(d)


def sim_write(fd, data):
    if not _active():
        return os.write(fd, data)
    k = _k.K
    if len(data) == 0:
        return os.write(fd, data)
    try:
        r = os.write(fd, data)
        k.progress += 1
        if r < len(data):
            STATS["wr_partial"] += 1
        k.point("write")
        return r
    except BlockingIOError:
        pass
    except BrokenPipeError:
        STATS["epipe"] += 1
        raise
    STATS["wr_block"] += 1
    try:
        d = os.dup(fd)
    except OSError:
        raise OSError(errno.EBADF, "Bad file descriptor") from None
    try:
        while True:
            k.block(_wr_ready(d), None, "wrwait")
            try:
                k.progress += 1
                return os.write(d, data)
            except BlockingIOError:
                # select() says writable only when PIPE_BUF bytes fit; try a smaller write
                if len(data) > 1:
                    try:
                        k.progress += 1
                        return os.write(d, data[: max(1, min(len(data), 512))])
                    except BlockingIOError:
                        pass
                k.sleep(1e-5)
                continue
            except BrokenPipeError:
                STATS["epipe"] += 1
                raise
    finally:
        os.close(d)


def write_all(fd, data):
    mv = memoryview(data)
    while len(mv):
        n = sim_write(fd, mv)
        mv = mv[n:]


def is_sim_fd(fd):
    try:
        return not os.get_blocking(fd)
    except OSError:
        return False


class SimRaw(io.RawIOBase):
    """RawIOBase over a non-blocking fd whose blocking is simulated."""

    def __init__(self, fd, mode, closefd):
        super().__init__()
        self._fd = fd
        self._mode = mode
        self._closefd = closefd
        self.name = fd

    def readable(self):
        return "r" in self._mode or "+" in self._mode

    def writable(self):
        return any(c in self._mode for c in "wa+x")

    def seekable(self):
        return False

    def fileno(self):
        if self.closed:
            raise ValueError("I/O operation on closed file")
        return self._fd

    def isatty(self):
        try:
            return os.isatty(self._fd)
        except OSError:
            return False

    @property
    def mode(self):
        return self._mode

    def readinto(self, b):
        if self.closed:
            raise ValueError("I/O operation on closed file")
        data = sim_read(self._fd, len(b))
        b[: len(data)] = data
        return len(data)

    def write(self, b):
        if self.closed:
            raise ValueError("I/O operation on closed file")
        return sim_write(self._fd, bytes(b))

    def close(self):
        if self.closed:
            return
        try:
            super().close()
        finally:
            if self._closefd:
                try:
                    os.close(self._fd)
                except OSError:
                    pass


def sim_open(
    file,
    mode="r",
    buffering=-1,
    encoding=None,
    errors=None,
    newline=None,
    closefd=True,
    opener=None,
):
    """open() that wraps simulated (non-blocking) descriptors in SimRaw."""
    if isinstance(file, int) and not isinstance(file, bool) and _active() and is_sim_fd(file):
        raw = SimRaw(file, mode, closefd)
        binary = "b" in mode
        if buffering == 0:
            if not binary:
                raise ValueError("can't have unbuffered text I/O")
            return raw
        bs = buffering if buffering > 1 else io.DEFAULT_BUFFER_SIZE
        if raw.readable() and raw.writable():
            buf = io.BufferedRandom(raw, bs)
        elif raw.readable():
            buf = io.BufferedReader(raw, bs)
        else:
            buf = io.BufferedWriter(raw, bs)
        if binary:
            return buf
        text = io.TextIOWrapper(
            buf, encoding=encoding, errors=errors, newline=newline, line_buffering=(buffering == 1)
        )
        text.mode = mode
        return text
    return _real_open(file, mode, buffering, encoding, errors, newline, closefd, opener)


# ---------------------------------------------------------------------- process-table calls
class ProcTable:
    """Simulated kernel process table + controlling terminal."""

    def __init__(self):
        self.procs = {}
        self.next_pid = 40001
        self.shell_pid = os.getpid()
        self.shell_pgid = 40000
        self.tty_fg = 40000
        self.tty_log = []
        self.has_tty = True

    def alloc_pid(self):
        p = self.next_pid
        self.next_pid += 1
        return p


TABLE = None  # set per run


def sim_waitpid(pid, opts):
    t = TABLE
    k = _k.K
    p = t.procs.get(pid) if t is not None else None
    if p is None or p.reaped:
        raise ChildProcessError(errno.ECHILD, "No child processes")

    def changed():
        return p.status is not None or (p.stop_pending and (opts & os.WUNTRACED))

    if not changed():
        if opts & os.WNOHANG:
            k.point("waitpid")
            return 0, 0
        k.block(changed, None, "waitpid")
    if p.status is None:
        # stopped child, reported once per stop
        p.stop_pending = False
        k.note(f"waitpid:{pid}:stopped")
        return pid, (p.stop_sig << 8) | 0x7F
    p.reaped = True
    st = p.status
    k.note(f"waitpid:{pid}:{st}")
    if st < 0:
        return pid, (-st) & 0x7F
    return pid, (st & 0xFF) << 8


def sim_kill(pid, sig):
    t = TABLE
    p = t.procs.get(pid) if t is not None else None
    if pid == os.getpid():
        return os.kill(pid, sig)
    if p is None or p.reaped:
        raise ProcessLookupError(errno.ESRCH, "No such process")
    p.deliver(sig)
    if _active():
        _k.K.point("kill")


def sim_killpg(pgid, sig):
    t = TABLE
    members = [p for p in t.procs.values() if p.pgid == pgid and not p.reaped]
    if not members:
        raise ProcessLookupError(errno.ESRCH, "No such process")
    for p in members:
        p.deliver(sig)
    if _active():
        _k.K.point("killpg")


def sim_getpgid(pid):
    t = TABLE
    if pid == 0 or pid == os.getpid():
        return t.shell_pgid
    p = t.procs.get(pid)
    if p is None or p.reaped:
        raise ProcessLookupError(errno.ESRCH, "No such process")
    return p.pgid


def sim_getpgrp():
    return TABLE.shell_pgid


def sim_tcsetpgrp(fd, pgid):
    t = TABLE
    if not t.has_tty:
        raise OSError(errno.ENOTTY, "Inappropriate ioctl for device")
    live = pgid == t.shell_pgid or any(
        p.pgid == pgid and not p.reaped for p in t.procs.values()
    )
    if not live:
        raise ProcessLookupError(errno.ESRCH, "No such process")
    t.tty_fg = pgid
    t.tty_log.append(pgid)
    if _active():
        _k.K.note(f"tcsetpgrp:{pgid}")


def sim_tcgetpgrp(fd):
    t = TABLE
    if not t.has_tty:
        raise OSError(errno.ENOTTY, "Inappropriate ioctl for device")
    return t.tty_fg


def sim_close(fd):
    k = _k.K
    if k is not None and k.active and k.me() is not None:
        me = k.me()
        k.note(f"close:{k.fdn(fd)}:t{me.tid}")
    return os.close(fd)


def make_os_proxy():
    return _k.ModProxy(
        os,
        read=sim_read,
        write=sim_write,
        pipe=sim_pipe,
        close=sim_close,
        waitpid=sim_waitpid,
        kill=sim_kill,
        killpg=sim_killpg,
        getpgid=sim_getpgid,
        getpgrp=sim_getpgrp,
        tcsetpgrp=sim_tcsetpgrp,
        tcgetpgrp=sim_tcgetpgrp,
    )


SIM_OS = make_os_proxy()


class _PtyProxy:
    def __getattr__(self, n):
        import pty

        return getattr(pty, n)

    @staticmethod
    def openpty():
        if _active():
            # A pty hands data from slave to master through a kernel work queue, so readiness right
            # after a write is timing dependent - a determinism breaker.  Report "out of pty devices":
            # xonsh's own fallback (PipeChannel.from_pty -> os.pipe) then runs, over a simulated pipe.
            STATS["ptys"] += 1
            raise OSError(errno.ENOSPC, "out of pty devices (simulated)")
        return sim_openpty()


SIM_PTY = _PtyProxy()


def _stat_is_fifo(fd):
    try:
        return stat.S_ISFIFO(os.fstat(fd).st_mode)
    except OSError:
        return False


_ = signal
