"""simkit - deterministic simulation kit for xonsh (see /verif/DESIGN.md section 2)."""
