"""Shared world for engines that run commands through the real Execer / procs code under
the kernel with simulated child processes (C05, C06, C07, C09, C20)."""

import gc
import io
import os
import shutil
import sys
import tempfile

from . import kernel as _k
from . import simos, simproc

TRACED = (
    "xonsh.procs.pipelines",
    "xonsh.procs.readers",
    "xonsh.procs.posix",
    "xonsh.procs.proxies",
    "xonsh.procs.pipes",
    "xonsh.procs.specs",
    "xonsh.procs.jobs",
)

_WARM = {}

BIN_STUB = b"\x7fELF\x00\x00\x00stub\n"
# contains the byte patterns xonsh's default predictor reads as "uses the terminal"
BIN_STUB_UNTHREADABLE = b"\x7fELF\x00\x00\x00stub isatty tcgetattr tcsetattr\n"


def scratch_root():
    return os.path.join(os.environ.get("TMPDIR") or tempfile.gettempdir(), "xvsim")


def scratch_for(pid):
    # fixed width: path LENGTHS leak into what the code under test writes (marshalled co_filename, JSON sizes),
    # and a 4-digit vs a 5-digit pid must not make two runs of one seed differ
    return os.path.join(scratch_root(), f"{int(pid):07d}")


def clean_os_environ():
    keep = {"PATH": "/usr/bin:/bin", "HOME": "/nonexistent-home", "TERM": "dumb", "LANG": "C.UTF-8", "LC_ALL": "C.UTF-8"}
    for k in list(os.environ):
        if k not in ("TMPDIR", "PYTHONHASHSEED", "PYTHONPATH", "VERIF_REPO"):
            del os.environ[k]
    os.environ.update(keep)


def warm(traced=TRACED, extra_traced=(), skip_names=()):
    """Import xonsh, load a session, install all seams.  Idempotent."""
    if _WARM:
        return _WARM
    clean_os_environ()
    import importlib

    from xonsh.built_ins import XSH
    from xonsh.environ import Env, default_env
    from xonsh.execer import Execer

    env = Env(default_env())
    env["XONSH_DATA_DIR"] = "/nonexistent-xonsh-data"
    env["XONSH_CACHE_DIR"] = "/nonexistent-xonsh-cache"
    env["XONSH_SHOW_TRACEBACK"] = True
    env["RAISE_SUBPROC_ERROR"] = False
    env["XONSH_INTERACTIVE"] = False
    XSH.load(ctx={}, execer=Execer(), env=env)
    mods = [importlib.import_module(n) for n in tuple(traced) + tuple(extra_traced)]
    import xonsh.lib.lazyimps as xli
    import xonsh.procs.specs as sx

    sim_sub = _k.ModProxy(simproc._sp, Popen=simproc.popen_dispatch)
    for m in mods:
        _k.rebind_module_names(
            m,
            time=_k.SIM_TIME,
            threading=_k.SIM_THREADING,
            queue=_k.SIM_QUEUE,
            os=simos.SIM_OS,
            subprocess=sim_sub,
        )
        _k.rebind_locks(m)
    import xonsh.procs.pipes as pp
    import xonsh.procs.proxies as pr

    pp.open = simos.sim_open
    pr.open = simos.sim_open
    sx.signal = simproc.SIM_SIGNAL
    xli.pty = simos.SIM_PTY
    # default `cls=subprocess.Popen` arguments were bound at import time
    real = simproc._RealPopen
    sx.SubprocSpec.__init__.__defaults__ = tuple(
        simproc.popen_dispatch if x is real else x for x in sx.SubprocSpec.__init__.__defaults__
    )
    sx.SubprocSpec.build.__func__.__kwdefaults__["cls"] = simproc.popen_dispatch
    simproc.popen_dispatch.__name__ = "Popen"
    _k.install_threading_patches()
    ncodes = _k.trace_modules(mods, skip=skip_names)
    # build the parser tables once, compile a trivial command
    XSH.execer.compile("echo warm\n", glbs={}, locs={}, mode="exec")
    _WARM.update(XSH=XSH, ncodes=ncodes, mods=mods)
    return _WARM


def fd_table():
    out = {}
    for n in sorted(os.listdir("/proc/self/fd"), key=int):
        try:
            out[int(n)] = os.readlink(f"/proc/self/fd/{n}")
        except OSError:
            pass
    return out


class RunCtx:
    """Per-run (forked child) world: scratch dir, fake terminal, PATH with stubs, kernel."""

    def __init__(self, seed, knobs, tape, emit):
        self.XSH = _WARM["XSH"]
        self.emit = emit
        self.dir = scratch_for(os.getpid())
        shutil.rmtree(self.dir, ignore_errors=True)
        os.makedirs(self.dir)
        self.bin = os.path.join(self.dir, "bin")
        os.mkdir(self.bin)
        self.work = os.path.join(self.dir, "work")
        os.mkdir(self.work)
        os.chdir(self.work)
        # fake terminal: fds 0/1/2
        self.tty_out = os.path.join(self.dir, "tty_out")
        self.tty_err = os.path.join(self.dir, "tty_err")
        fd0 = os.open(os.devnull, os.O_RDONLY)
        fd1 = os.open(self.tty_out, os.O_WRONLY | os.O_CREAT | os.O_APPEND, 0o600)
        fd2 = os.open(self.tty_err, os.O_WRONLY | os.O_CREAT | os.O_APPEND, 0o600)
        os.dup2(fd0, 0)
        os.dup2(fd1, 1)
        os.dup2(fd2, 2)
        for fd in (fd0, fd1, fd2):
            os.close(fd)
        sys.stdin = io.TextIOWrapper(io.FileIO(0, "r", closefd=False), encoding="utf-8")
        sys.stdout = io.TextIOWrapper(io.FileIO(1, "w", closefd=False), encoding="utf-8", errors="surrogateescape", write_through=True)
        sys.stderr = io.TextIOWrapper(io.FileIO(2, "w", closefd=False), encoding="utf-8", errors="backslashreplace", write_through=True)
        sys.__stdin__, sys.__stdout__, sys.__stderr__ = sys.stdin, sys.stdout, sys.stderr
        import xonsh.procs.proxies as pr

        pr.STDOUT_DISPATCHER.default = sys.stdout
        pr.STDERR_DISPATCHER.default = sys.stderr
        env = self.XSH.env
        env["PATH"] = [self.bin]
        env["XONSH_DATA_DIR"] = self.dir
        env["XONSH_CACHE_DIR"] = self.dir
        env["PWD"] = self.work
        env["HOME"] = self.work
        self.XSH.ctx.clear()
        simproc.reset_world()
        simos.TABLE = simos.ProcTable()
        for k_ in simos.STATS:
            simos.STATS[k_] = 0
        simos.PIPE_CAPACITY[0] = int(knobs.get("pipe_cap", 65536))
        gc.disable()
        self.thread_excs = []
        import threading
        import traceback

        def hook(args, _self=self):
            if args.exc_type is _k.SimExit:
                return
            _self.thread_excs.append(
                "".join(traceback.format_exception(args.exc_type, args.exc_value, args.exc_traceback))[-1200:]
            )

        threading.excepthook = hook
        self.k = _k.Kernel(seed, knobs, tape, on_abort=self._on_abort)
        _k.K = self.k
        self.partial = {}

    def add_stub(self, name, unthreadable=False, mode=0o755):
        p = os.path.join(self.bin, name)
        with open(p, "wb") as f:
            f.write(BIN_STUB_UNTHREADABLE if unthreadable else BIN_STUB)
        os.chmod(p, mode)
        return p

    def start(self):
        self.k.start()

    def read_tty(self):
        for f in (sys.stdout, sys.stderr):
            try:
                f.flush()
            except ValueError:
                pass  # closed by the code under test (reported by the C09 oracle)
        with open(self.tty_out, "rb") as f:
            o = f.read()
        with open(self.tty_err, "rb") as f:
            e = f.read()
        return o, e

    def base_result(self):
        k = self.k
        return {
            "full_trace": k.full,
            "sites_seen": sorted(k.sites_seen) if k.sites_seen is not None else None,
            "thread_excs": self.thread_excs,
            "digest": k.digest(),
            "tape": {str(a): b for a, b in k.tape_out.items()} if not k.replay else None,
            "stats": {
                "decisions": k.d,
                "switches": k.switches,
                "preempts": k.preempts,
                "sim_time": k.now,
                "threads": len([r for r in k.recs if r.kind == "thread"]),
                "procs": len([r for r in k.recs if r.kind == "proc"]),
            },
            "faults": {},
            "probes": {
                "pipe_full_backpressure": simos.STATS["wr_block"],
                "reader_blocked": simos.STATS["rd_block"],
                "epipe": simos.STATS["epipe"],
            },
        }

    def _on_abort(self, verdict):
        """Deadlock / hang verdict from the kernel: report and leave (never returns)."""
        res = self.base_result()
        o, e = b"", b""
        try:
            o, e = self.read_tty()
        except Exception:
            pass
        res["violations"] = [
            {
                "clause": "live.returns",
                "msg": f"{verdict['kind']}: {verdict['msg']}; threads={verdict['threads']}; stack={verdict.get('stack')}; tty_err tail={e[-600:]!r}",
                "sig": dict(self.partial.get("abort_sig") or {}, kind=verdict["kind"]),
            }
        ]
        res.update({k_: v_ for k_, v_ in self.partial.items() if k_ != "abort_sig"})
        res["thread_excs"] = self.thread_excs
        res["trace_tail"] = list(self.k.trace)[-60:]
        res["fds"] = fd_table()
        self.emit(res)

    def exec_src(self, src, ctx=None):
        XSH = self.XSH
        ctx = XSH.ctx if ctx is None else ctx
        code = XSH.execer.compile(src, glbs=ctx, locs=None, mode="exec", filename="<sim>")
        if code is not None:
            exec(code, ctx)
        return ctx

    def quiesce(self, timeout=10.0):
        """Let helper threads finish (bounded simulated time)."""
        k = self.k
        ok = k.wait_quiescent(timeout, include=lambda r: r.kind == "thread")
        return ok


def profile_sites(engine, nruns=24, tier="quick", keep=None):
    """Which traced source lines does this engine's workload actually execute?

    Runs a few generated cases with line recording (forked children) and returns the sorted union of
    executed (file, line) sites; used to aim site-focused pre-emption at code that runs."""
    import random

    from . import runner

    seen = set()
    for i in range(nruns):
        seed = 7_000_000 + i
        case = engine.gen_case(random.Random(seed), tier, seed)
        case = dict(case)
        case["knobs"] = dict(case["knobs"], record_sites=True, policy="random", sites=[])
        res = runner.exec_case(engine, case)
        for s_ in res.get("sites_seen") or ():
            if keep is None or s_[0] in keep:
                seen.add(tuple(s_))
    return sorted(seen)


def pick_sites(rng, hot_sites, k):
    """k pre-emption sites: file drawn uniformly, then a line of it (small helper modules get as
    much attention as big ones)."""
    by_file = {}
    for f, ln in hot_sites:
        by_file.setdefault(f, []).append(ln)
    files = sorted(by_file)
    out = []
    for _ in range(k):
        f = rng.choice(files)
        out.append([f, rng.choice(by_file[f])])
    return out
