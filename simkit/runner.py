"""Batch runner: worker processes, one forked child per run, aggregation, minimisation,
replay files, evidence, known findings.  (DESIGN.md 2.1, 2.7, 2.8, 2.10)"""

import collections
import hashlib
import json
import os
import re
import select
import signal
import sys
import time
import traceback

VERIF = os.path.dirname(os.path.dirname(os.path.abspath(__file__)))
MASK = (1 << 64) - 1


def splitmix64(x):
    x = (x + 0x9E3779B97F4A7C15) & MASK
    z = x
    z = ((z ^ (z >> 30)) * 0xBF58476D1CE4E5B9) & MASK
    z = ((z ^ (z >> 27)) * 0x94D049BB133111EB) & MASK
    return z ^ (z >> 31)


def run_seed(verif_seed, prop, i):
    h = int.from_bytes(hashlib.sha256(prop.encode()).digest()[:8], "big")
    return splitmix64(splitmix64(verif_seed ^ h) + i) & 0x7FFFFFFFFFFF


# ---------------------------------------------------------------------- known findings
_KF_RE = re.compile(
    r"^known:\s+property=(\S+)\s+key=(\S+)\s+clause=(\S+)\s+sig=(\{.*?\})\s+(?:—|--)\s+(.*)$"
)


def load_known_findings(prop):
    out = []
    path = os.path.join(VERIF, "known_findings.txt")
    if not os.path.exists(path):
        return out
    with open(path, encoding="utf-8") as f:
        for line in f:
            m = _KF_RE.match(line.strip())
            if m and m.group(1) == prop:
                out.append(
                    {
                        "key": m.group(2),
                        "clause": m.group(3),
                        "sig": json.loads(m.group(4)),
                        "text": m.group(5),
                    }
                )
    return out


def match_known(v, known):
    for kf in known:
        if kf["clause"] != v.get("clause"):
            continue
        sig = v.get("sig") or {}
        if all(sig.get(k) == val for k, val in kf["sig"].items()):
            return kf
    return None


# ---------------------------------------------------------------------- one run in a forked child
def _write_all(fd, data):
    mv = memoryview(data)
    while len(mv):
        n = os.write(fd, mv)
        mv = mv[n:]


def exec_case(engine, case, tape=None, wall_timeout=90.0):
    """Fork a child, run the case there, return its result dict.

    The child never returns: it writes one JSON document to a pipe and _exit()s."""
    r, w = os.pipe()
    sys.stdout.flush()
    sys.stderr.flush()
    pid = os.fork()
    if pid == 0:
        code = 0
        try:
            os.close(r)
            signal.signal(signal.SIGINT, signal.SIG_DFL)

            def emit(res):
                _write_all(w, json.dumps(res, default=repr).encode())
                os._exit(0)

            try:
                res = engine.run_case(case, tape, emit)
            except BaseException:  # harness failure, never a violation
                res = {"harness_error": traceback.format_exc()}
            emit(res)
        finally:
            os._exit(code or 3)
    os.close(w)
    chunks = []
    deadline = time.monotonic() + wall_timeout
    timed_out = False
    while True:
        left = deadline - time.monotonic()
        if left <= 0:
            timed_out = True
            break
        rl, _, _ = select.select([r], [], [], min(left, 1.0))
        if rl:
            b = os.read(r, 1 << 16)
            if not b:
                break
            chunks.append(b)
    os.close(r)
    if timed_out:
        try:
            os.kill(pid, signal.SIGKILL)
        except ProcessLookupError:
            pass
    _, st = os.waitpid(pid, 0)
    engine.cleanup_run(pid)
    if timed_out:
        return {"harness_error": f"HARNESS-TIMEOUT after {wall_timeout}s wall"}
    data = b"".join(chunks)
    if not data:
        if os.WIFSIGNALED(st):
            return {"child_signal": os.WTERMSIG(st)}
        return {"harness_error": f"run child ended without result (status {st})"}
    try:
        return json.loads(data)
    except ValueError:
        return {"harness_error": "unparsable child result: " + repr(data[:200])}


# ---------------------------------------------------------------------- batch
def _worker(engine, widx, nworkers, indices, verif_seed, tier, out_fd, t_end, recheck_every):
    rng_mod = __import__("random")
    try:
        for i in indices:
            if time.monotonic() > t_end:
                break
            seed = run_seed(verif_seed, engine.property_id, i)
            case = engine.gen_case(rng_mod.Random(seed), tier, seed)
            res = exec_case(engine, case)
            if "harness_error" in res and "TIMEOUT" in res["harness_error"]:
                res = exec_case(engine, case)  # one retry under load
            rec = {"i": i, "seed": seed, "res": res}
            if (
                res.get("violations")
                or "harness_error" in res
                or "child_signal" in res
                or i % max(1, (nworkers * 50)) == widx
            ):
                rec["case"] = case
            if recheck_every and i % recheck_every == 0 and "harness_error" not in res:
                res2 = exec_case(engine, case)
                rec["recheck"] = res2.get("digest") == res.get("digest") and (
                    [v["clause"] for v in res2.get("violations", [])]
                    == [v["clause"] for v in res.get("violations", [])]
                )
                if not rec["recheck"]:
                    rec["case"] = case
                    rec["recheck_digests"] = [res.get("digest"), res2.get("digest")]
            _write_all(out_fd, (json.dumps(rec, default=repr) + "\n").encode())
    except BaseException:
        rec = {"i": -1, "seed": 0, "res": {"harness_error": traceback.format_exc()}}
        _write_all(out_fd, (json.dumps(rec) + "\n").encode())
    finally:
        os._exit(0)


def run_batch(engine, n_runs, verif_seed, tier, jobs, wall_cap, recheck_every=50, start=0):
    """Run cases start..start+n_runs-1 across `jobs` workers.  Yields result records."""
    engine.warmup()
    t_end = time.monotonic() + wall_cap
    pipes = {}
    pids = []
    for w in range(jobs):
        r, wfd = os.pipe()
        sys.stdout.flush()
        sys.stderr.flush()
        pid = os.fork()
        if pid == 0:
            os.close(r)
            for rr in pipes:
                os.close(rr)
            _worker(
                engine,
                w,
                jobs,
                range(start + w, start + n_runs, jobs),
                verif_seed,
                tier,
                wfd,
                t_end,
                recheck_every,
            )
        os.close(wfd)
        pipes[r] = bytearray()
        pids.append(pid)
    try:
        while pipes:
            rl, _, _ = select.select(list(pipes), [], [], 1.0)
            for r in rl:
                b = os.read(r, 1 << 16)
                if not b:
                    os.close(r)
                    del pipes[r]
                    continue
                buf = pipes[r]
                buf += b
                while True:
                    nl = buf.find(b"\n")
                    if nl < 0:
                        break
                    line = bytes(buf[:nl])
                    del buf[: nl + 1]
                    yield json.loads(line)
    finally:
        for pid in pids:
            try:
                os.waitpid(pid, 0)
            except ChildProcessError:
                pass


# ---------------------------------------------------------------------- minimisation
def _clauses(res):
    return [v["clause"] for v in res.get("violations", [])]


def _fails_same(engine, case, clause, tape=None, known=()):
    res = exec_case(engine, case, tape)
    for v in res.get("violations", []):
        if v["clause"] == clause and not match_known(v, known):
            return res
    return None


def ddmin_list(items, test, budget):
    """Classic ddmin on a list; test(list)->bool (True = still fails)."""
    n = 2
    items = list(items)
    while len(items) >= 2 and budget[0] > 0:
        chunk = max(1, len(items) // n)
        subsets = [items[i : i + chunk] for i in range(0, len(items), chunk)]
        reduced = False
        for idx in range(len(subsets)):
            if budget[0] <= 0:
                break
            comp = [x for j, s in enumerate(subsets) if j != idx for x in s]
            budget[0] -= 1
            if comp and test(comp):
                items = comp
                n = max(n - 1, 2)
                reduced = True
                break
        if not reduced:
            if n >= len(items):
                break
            n = min(len(items), n * 2)
    if len(items) == 1 and budget[0] > 0:
        budget[0] -= 1
        if test([]):
            return []
    return items


class _Budget(list):
    """[runs_left] that also runs out when a wall-clock deadline passes."""

    def __init__(self, runs, wall):
        super().__init__([runs])
        self.t_end = time.monotonic() + wall

    def __getitem__(self, i):
        if time.monotonic() > self.t_end:
            return 0
        return list.__getitem__(self, i)


def minimise(engine, case, clause, known, budget_runs=300, budget_wall=40.0):
    budget = _Budget(budget_runs, budget_wall)
    best = case
    # 1. ddmin over ops
    if isinstance(best.get("ops"), list) and len(best["ops"]) > 1:

        def test_ops(ops):
            c = dict(best)
            c["ops"] = ops
            if not engine.case_valid(c):
                return False
            return _fails_same(engine, c, clause, None, known) is not None

        ops = ddmin_list(best["ops"], test_ops, budget)
        best = dict(best)
        best["ops"] = ops
    # 2. engine-specific simplifications (greedy, repeated)
    progress = True
    while progress and budget[0] > 0:
        progress = False
        for cand in engine.simplify(best):
            if budget[0] <= 0:
                break
            budget[0] -= 1
            if _fails_same(engine, cand, clause, None, known) is not None:
                best = cand
                progress = True
                break
    # 3. record the tape of the (generation-mode) failing run and minimise it
    res = _fails_same(engine, best, clause, None, known)
    if res is None:  # should not happen (deterministic); fall back to original
        best = case
        res = exec_case(engine, best)
    tape = {int(k): v for k, v in (res.get("tape") or {}).items()}
    if tape:
        rep = _fails_same(engine, best, clause, tape, known)
        if rep is not None:
            keys = sorted(tape)

            def test_tape(ks):
                t = {k: tape[k] for k in ks}
                return _fails_same(engine, best, clause, t, known) is not None

            keys = ddmin_list(keys, test_tape, budget)
            tape = {k: tape[k] for k in keys}
            res = _fails_same(engine, best, clause, tape, known) or rep
        else:
            tape = None  # replay by tape diverged; keep seed-based replay
    else:
        tape = {} if getattr(engine, "uses_kernel", True) else None
    return best, tape, res, budget_runs - list.__getitem__(budget, 0)


# ---------------------------------------------------------------------- top level
def write_replay(engine, case, tape, res, clause, verif_seed, seed):
    d = os.path.join(VERIF, "replays")
    os.makedirs(d, exist_ok=True)
    viol = [v for v in res.get("violations", []) if v["clause"] == clause]
    doc = {
        "property": engine.property_id,
        "clause": clause,
        "verif_seed": verif_seed,
        "run_seed": seed,
        "case": case,
        "tape": None if tape is None else {str(k): v for k, v in tape.items()},
        "expect": {
            "digest": res.get("digest"),
            "message": viol[0].get("msg") if viol else None,
            "sig": viol[0].get("sig") if viol else None,
        },
    }
    h = hashlib.sha256(json.dumps(doc, sort_keys=True, default=repr).encode()).hexdigest()[:10]
    path = os.path.join(d, f"{engine.property_id}-{clause.replace('/', '_')}-{h}.json")
    with open(path, "w", encoding="utf-8") as f:
        json.dump(doc, f, indent=1, sort_keys=True, default=repr)
    return path


def do_replay(engine, path):
    with open(path, encoding="utf-8") as f:
        doc = json.load(f)
    trace_to = os.environ.get("VERIF_TRACE")
    engine.warmup()
    tape = doc.get("tape")
    tape = None if tape is None else {int(k): v for k, v in tape.items()}
    if trace_to:
        doc["case"].setdefault("knobs", {})["full_trace"] = True
    res = exec_case(engine, doc["case"], tape)
    if trace_to and res.get("full_trace"):
        with open(trace_to, "w") as f:
            f.write("\n".join(res["full_trace"]))
    print(json.dumps({k: res.get(k) for k in ("violations", "digest", "harness_error", "summary", "trace_tail", "fds", "thread_excs", "tty_err_tail")}, indent=1, default=repr))
    clauses = _clauses(res)
    if doc["clause"] in clauses:
        same = res.get("digest") == doc["expect"].get("digest")
        print(f"REPRODUCED property={doc['property']} clause={doc['clause']} digest_match={same}")
        return 1
    print(f"NOT-REPRODUCED property={doc['property']} clause={doc['clause']} got={clauses}")
    return 0


def main_check(engine, tier, verif_seed, jobs, n_runs=None, wall_cap=None):
    t0 = time.time()
    prop = engine.property_id
    known = load_known_findings(prop)
    budgets = engine.budgets[tier]
    n_runs = n_runs or budgets["runs"]
    wall_cap = wall_cap or budgets["wall"]
    agg = {
        "evaluations": 0,
        "violating_runs": 0,
        "known_runs": 0,
        "harness_errors": [],
        "child_signals": 0,
        "probes": collections.Counter(),
        "faults": collections.Counter(),
        "stats": collections.Counter(),
        "distinct": set(),
        "states": set(),
        "rechecks": 0,
        "recheck_fail": [],
        "samples": [],
        "known_hit": collections.Counter(),
        "clauses": collections.Counter(),
    }
    t_batch = None
    first_bad = {}  # clause -> (rec)
    dump = open(os.environ["VERIF_DUMP"], "w") if os.environ.get("VERIF_DUMP") else None
    digests = open(os.environ["VERIF_DIGESTS"], "w") if os.environ.get("VERIF_DIGESTS") else None  # selftest/determinism
    for rec in run_batch(engine, n_runs, verif_seed, tier, jobs, wall_cap):
        res = rec["res"]
        if "harness_error" in res:
            agg["harness_errors"].append({"i": rec["i"], "seed": rec["seed"], "err": res["harness_error"][-1500:]})
            continue
        agg["evaluations"] += 1
        if digests is not None:
            digests.write(f"{rec['i']} {rec['seed']} {res.get('digest')} {len(res.get('violations') or ())}\n")
        if "child_signal" in res:
            agg["child_signals"] += 1
            res = engine.on_child_signal(res, rec)
        for k, v in (res.get("probes") or {}).items():
            agg["probes"][k] += v
        for k, v in (res.get("faults") or {}).items():
            agg["faults"][k] += v
        for k, v in (res.get("stats") or {}).items():
            if isinstance(v, (int, float)):
                agg["stats"][k] += v
        if res.get("nontrivial") and res.get("key"):
            agg["distinct"].add(res["key"])
        for s in res.get("states") or ():
            agg["states"].add(s)
        if "recheck" in rec:
            agg["rechecks"] += 1
            if not rec["recheck"]:
                agg["recheck_fail"].append({"seed": rec["seed"], "digests": rec.get("recheck_digests")})
        if "case" in rec and len(agg["samples"]) < 4 and not res.get("violations"):
            agg["samples"].append({"seed": rec["seed"], "case": rec["case"], "digest": res.get("digest"), "outcome": res.get("summary")})
        unknown = []
        for v in res.get("violations") or ():
            kf = match_known(v, known)
            if kf:
                agg["known_hit"][kf["key"]] += 1
            else:
                unknown.append(v)
        if res.get("violations") and not unknown:
            agg["known_runs"] += 1
        if unknown and dump is not None:
            dump.write(json.dumps({"seed": rec["seed"], "case": rec.get("case"), "violations": unknown, "thread_excs": res.get("thread_excs")}, default=repr) + "\n")
        if unknown:
            agg["violating_runs"] += 1
            for v in unknown:
                agg["clauses"][v["clause"]] += 1
                cur = first_bad.get(v["clause"])
                if cur is None or rec["i"] < cur["i"]:
                    first_bad[v["clause"]] = rec
    t_batch = time.time() - t0
    replays = []
    min_runs = 0
    for clause in sorted(first_bad)[:3]:
        rec = first_bad[clause]
        case = rec.get("case")
        if case is None:
            continue
        try:
            best, tape, res, used = minimise(
                engine, case, clause, known, engine.budgets[tier].get("min_runs", 300), engine.budgets[tier].get("min_wall", 40.0)
            )
            min_runs += used
        except Exception:
            traceback.print_exc()
            best, tape, res = case, None, rec["res"]
        path = write_replay(engine, best, tape, res, clause, verif_seed, rec["seed"])
        replays.append((clause, path, res))
    wall = time.time() - t0
    ev = {
        "property_id": prop,
        "tier": tier,
        "seed": verif_seed,
        "level": engine.level,
        "wall_s": round(wall, 2),
        "violations": agg["violating_runs"],
        "assumptions": engine.assumptions,
        "coverage": {
            "evaluations": agg["evaluations"],
            "distinct_nontrivial": len(agg["distinct"]),
            "rule": engine.rule,
            "samples": agg["samples"] or [{"note": "no sample captured"}],
            "runs_per_hour": int(agg["evaluations"] / max(wall, 1e-9) * 3600),
            "sim_time_s": round(agg["stats"].get("sim_time", 0.0), 3),
            "decisions": int(agg["stats"].get("decisions", 0)),
            "switches": int(agg["stats"].get("switches", 0)),
            "preemptions": int(agg["stats"].get("preempts", 0)),
            "faults_injected": dict(sorted(agg["faults"].items())),
            "probes": dict(sorted(agg["probes"].items())),
            "distinct_states": len(agg["states"]),
            "distinct_states_measure": engine.state_measure,
            "components": engine.components,
            "determinism_rechecks": agg["rechecks"],
            "determinism_recheck_failures": agg["recheck_fail"][:5],
            "known_findings_hit": dict(agg["known_hit"]),
            "runs_with_only_known_findings": agg["known_runs"],
            "child_signals": agg["child_signals"],
            "harness_errors": len(agg["harness_errors"]),
            "minimisation_runs": min_runs,
            "jobs": jobs,
            "requested_runs": n_runs,
            "exhaustive": False,
        },
    }
    ev["coverage"].update(engine.extra_coverage(agg))
    if not os.environ.get("VERIF_NO_EVIDENCE"):  # (self-test runs must not overwrite the evidence of the registered commands)
        os.makedirs(os.path.join(VERIF, "evidence"), exist_ok=True)
        with open(os.path.join(VERIF, "evidence", f"{prop}.json"), "w", encoding="utf-8") as f:
            json.dump(ev, f, indent=1, sort_keys=True, default=repr)
    # report
    print(
        f"[{prop}] tier={tier} seed={verif_seed} runs={agg['evaluations']} distinct={len(agg['distinct'])} "
        f"violating={agg['violating_runs']} known_only={agg['known_runs']} harness_errors={len(agg['harness_errors'])} "
        f"rechecks={agg['rechecks']} recheck_fail={len(agg['recheck_fail'])} wall={wall:.1f}s"
    )
    if agg["clauses"]:
        print(f"[{prop}] unlisted violations by clause: {dict(agg['clauses'])}  (batch {t_batch:.1f}s)")
    zero = [k for k in engine.expected_probes if not agg["probes"].get(k)]
    if zero:
        print(f"[{prop}] WARNING probes stuck at zero: {zero}")
    for kf in known:
        if agg["known_hit"].get(kf["key"]):
            print(f"KNOWN-FINDING: property={prop} {kf['key']}: {kf['text']}")
    if agg["recheck_fail"]:
        print(f"[{prop}] HARNESS-ERROR nondeterministic runs: {agg['recheck_fail'][:3]}")
    for he in agg["harness_errors"][:3]:
        print(f"[{prop}] HARNESS-ERROR run {he['i']} seed {he['seed']}:\n{he['err']}")
    for clause, path, res in replays:
        v = [x for x in res.get("violations", []) if x["clause"] == clause]
        print(f"[{prop}] clause={clause}: {v[0]['msg'][:600] if v else ''}")
        print(f"VIOLATION property={prop} replay={path}")
    if replays or agg["violating_runs"]:
        if not replays:
            print(f"VIOLATION property={prop} replay=none")
        return 1
    if agg["harness_errors"] or agg["recheck_fail"] or agg["evaluations"] == 0:
        return 2
    return 0
