"""SimKernel: baton-passing scheduler over real threads, simulated clock, decision tape.

Exactly one registered thread runs at a time.  Every blocking seam call and every
traced source line (sys.monitoring LINE events on selected code objects) is a
decision point.  In *generation* mode decisions come from a PRNG and every
non-default decision is written to a tape; in *replay* mode the tape alone decides.
"""

import _thread
import collections
import hashlib
import random
import sys
import threading
import time as _time
import types

_real_start = threading.Thread.start
_real_join = threading.Thread.join
_real_is_alive = threading.Thread.is_alive

K = None  # the active kernel (one per run child)

_DELTAS = (0.0, 1e-6, 1e-5, 5e-5)
TIME_BASE = 1_700_000_000.0


class SimExit(BaseException):
    """Raised inside helper threads when the run is being torn down."""


class TRec:
    __slots__ = (
        "tid",
        "name",
        "kind",
        "baton",
        "done",
        "pred",
        "deadline",
        "timed_out",
        "why",
        "prio",
        "ident",
        "daemon",
        "last_run",
    )

    def __init__(self, tid, name, kind):
        self.tid = tid
        self.name = name
        self.kind = kind
        self.baton = _thread.allocate_lock()
        self.baton.acquire()
        self.last_run = -1
        self.done = False
        self.pred = None
        self.deadline = None
        self.timed_out = False
        self.why = None
        self.prio = 0
        self.ident = None
        self.daemon = False


class Kernel:
    def __init__(self, seed, knobs=None, tape=None, on_abort=None):
        knobs = knobs or {}
        self.seed = seed
        self.rng = random.Random(seed)
        self.p = float(knobs.get("p", 0.1))
        self.policy = knobs.get("policy", "random")
        self.victim = knobs.get("victim")  # tid starved under policy 'starve'
        self.starve_until = int(knobs.get("starve_until", 30000))  # starvation is long, not eternal
        self.pct_points = set(knobs.get("pct_points", ()))
        self.max_steps = int(knobs.get("max_steps", 300_000))
        # the step budget is a livelock detector, not a cost limit: while bytes still move through simulated pipes or
        # threads / processes still finish, exceeding it only extends it (bounded), see _advance()
        self._fdn = {}  # real fd number -> ordinal of first appearance (digests must not depend on the inherited fd layout)
        self.progress = 0
        self._progress_mark = -1
        self._step_quantum = self.max_steps
        self._extensions = 0
        self.max_time = float(knobs.get("max_time", 120.0))
        self.clock_seed = int(knobs.get("clock_seed", seed)) & 0xFFFFFFFF
        self.tick = bool(knobs.get("tick", True))
        self.replay = tape is not None
        self.tape_in = {int(k): v for k, v in (tape or {}).items()}
        self.tape_out = {}
        self.on_abort = on_abort
        self.now = 0.0
        self.d = 0  # decision counter
        self.recs = []
        self.by_ident = {}
        self.cur = None
        self.active = False
        self.h = hashlib.blake2b(digest_size=8)
        self.trace = collections.deque(maxlen=400)
        self.counts = collections.Counter()
        self.switches = 0
        self.preempts = 0
        self.kind_counter = collections.Counter()
        self.verdict = None
        self.main = None
        self.full = [] if knobs.get("full_trace") else None
        # site-focused pre-emption: whenever execution reaches one of these (file, line) sites the
        # running thread is held back until every other thread blocks (or hold_len decisions pass)
        self.sites = {(a, int(b)) for a, b in knobs.get("sites", ())}
        self.hold_len = int(knobs.get("hold_len", 3000))
        self.site_budget = int(knobs.get("site_budget", 60))
        self.site_hits = 0
        self.held = None  # (tid, until_decision)
        self.sites_seen = set() if knobs.get("record_sites") else None
        self.run_len = 0  # consecutive traced lines by one thread without a switch
        self.force_every = int(knobs.get("force_every", 400))  # models the GIL switch interval

    # ------------------------------------------------------------------ registry
    def register_current(self, name, kind="thread"):
        self.kind_counter[name] += 1
        r = TRec(len(self.recs), f"{name}#{self.kind_counter[name]}", kind)
        r.ident = _thread.get_ident()
        if self.policy == "pct":
            r.prio = self.rng.random() + 1.0
        self.by_ident[r.ident] = r
        self.recs.append(r)
        return r

    def start(self):
        """Register the calling thread as the simulation's main thread."""
        self.main = self.register_current("main", "main")
        self.cur = self.main
        self.active = True
        return self.main

    def stop(self):
        self.active = False

    def me(self):
        return self.by_ident.get(_thread.get_ident())

    # ------------------------------------------------------------------ logging
    def fdn(self, fd):
        """Layout-independent name of a file descriptor for the event log."""
        return self._fdn.setdefault(fd, len(self._fdn))

    def note(self, what):
        """Record an event in the digest (never draws randomness, never reads a clock)."""
        self.h.update(what.encode("utf-8", "replace"))
        self.h.update(b";")
        self.trace.append(what)
        if self.full is not None:
            self.full.append(f"{self.d}@{self.now:.6f} {what}")

    def digest(self):
        return self.h.hexdigest()

    # ------------------------------------------------------------------ scheduling
    def _runnable(self):
        out = []
        now = self.now
        for r in self.recs:
            if r.done:
                continue
            if r.pred is None:
                out.append(r)
            elif r.pred():
                out.append(r)
            elif r.deadline is not None and r.deadline <= now:
                out.append(r)
        return out

    def _advance(self):
        self.d += 1
        if self.tick:
            self.now += _DELTAS[(((self.d ^ self.clock_seed) * 0x9E3779B1) >> 13) & 3]
        if self.d > self.max_steps:
            if self.progress != self._progress_mark and self._extensions < 12:
                # a busy-wait loop (xonsh's foreground wait spins) burns steps while the work it waits for goes on
                self._progress_mark = self.progress
                self._extensions += 1
                self.max_steps += self._step_quantum
            else:
                self.abort("hang", f"step budget {self.max_steps} exceeded ({self._extensions} extensions, no I/O or thread progress during the last {self._step_quantum} decisions)")
        if self.now > self.max_time:
            self.abort("hang", f"simulated time budget {self.max_time}s exceeded")

    def abort(self, kind, msg):
        import traceback

        stack = [f"{f.filename.rsplit('/', 1)[-1]}:{f.lineno}:{f.name}" for f in traceback.extract_stack()[:-1]]
        stack = [x for x in stack if not x.startswith(("kernel.py", "threading.py"))][-14:]
        self.verdict = {
            "kind": kind,
            "msg": msg,
            "stack": stack,
            "threads": [
                {"name": r.name, "kind": r.kind, "why": r.why, "deadline": r.deadline}
                for r in self.recs
                if not r.done
            ],
        }
        self.note(f"ABORT:{kind}")
        self.active = False
        if self.on_abort is not None:
            self.on_abort(self.verdict)  # does not return in a run child
        raise SimExit(msg)

    def _candidates(self):
        while True:
            c = self._runnable()
            if c:
                return c
            dls = [r.deadline for r in self.recs if not r.done and r.deadline is not None]
            if not dls:
                self.abort("deadlock", "no runnable thread and no pending deadline")
            self.now = max(self.now, min(dls))
            if self.now > self.max_time:
                self.abort("hang", f"simulated time budget {self.max_time}s exceeded")

    def _default(self, me, cands):
        if me is not None and me in cands:
            return me
        return cands[0]

    def _choose(self, me, cands, preempting, forced=False):
        """Pick the next thread.  Returns a TRec from cands."""
        default = self._default(me, cands)
        if forced:
            # fairness rule (both modes, not on the tape): round-robin successor of me
            # the LEAST RECENTLY RUN other runnable thread: a thread that wakes up periodically (timed queue get,
            # polling loop) must not keep the threads behind it from ever running, as plain "next tid" would
            others = [r for r in cands if r is not me]
            if not others:
                return default
            return min(others, key=lambda r: (r.last_run, r.tid))
        if self.replay:
            tid = self.tape_in.get(self.d)
            if tid is not None:
                for r in cands:
                    if r.tid == tid:
                        return r
            return default
        pol = self.policy
        pool = cands
        if pol == "starve" and self.victim is not None and len(cands) > 1 and self.d < self.starve_until:
            pool = [r for r in cands if r.tid != self.victim] or cands
        if self.held is not None:
            if self.d >= self.held[1]:
                self.held = None
            else:
                rest = [r for r in pool if r.tid != self.held[0]]
                if rest:
                    pool = rest
                    if me is not None and me.tid != self.held[0] and me in pool and not preempting and self.rng.random() < 0.85:
                        # keep the other threads going: the held thread should meet a changed world
                        if me is not default:
                            self.tape_out[self.d] = me.tid
                        return me
                else:
                    self.held = None
        if preempting:
            others = [r for r in pool if r is not me]
            pick = self.rng.choice(others) if others else default
        elif pol == "random" or pol == "starve":
            pick = self.rng.choice(pool)
        elif pol == "pct":
            if self.d in self.pct_points and me is not None:
                me.prio = self.rng.random()  # drop below everybody
            pick = max(pool, key=lambda r: r.prio)
        elif pol == "rr":
            if me is not None and me in pool and len(pool) > 1:
                i = pool.index(me)
                pick = pool[(i + 1) % len(pool)]
            else:
                pick = pool[0] if me not in pool else me
        else:  # 'nopreempt'
            pick = me if (me is not None and me in pool) else pool[0]
        if pick is not default:
            self.tape_out[self.d] = pick.tid
        return pick

    def switch(self, why, preempting=False, forced=False):
        me = self.me()
        cands = self._candidates()
        nxt = self._choose(me, cands, preempting, forced)
        self.counts[why] += 1
        if nxt.pred is not None:
            nxt.timed_out = not nxt.pred()
            nxt.pred = None
            nxt.deadline = None
            nxt.why = None
        if nxt is me:
            return
        self.run_len = 0
        self.switches += 1
        self.note(f"{why}:{me.tid if me else -1}>{nxt.tid}")
        nxt.last_run = self.d
        self.cur = nxt
        nxt.baton.release()
        if me is not None and not me.done:
            me.baton.acquire()

    # pre-emption at a traced source line
    def preempt(self, site=None):
        me = self.by_ident.get(_thread.get_ident())
        if me is None or self.cur is not me:
            return
        self._advance()
        self.run_len += 1
        if self.sites and not self.replay and site in self.sites and self.site_hits < self.site_budget:
            if self.held is None or self.held[0] != me.tid:
                self.site_hits += 1
                self.held = (me.tid, self.d + self.hold_len)
                self.preempts += 1
                self.counts["site_hold"] += 1
                self.switch("S", preempting=True)
                return
        if self.run_len >= self.force_every:
            self.run_len = 0
            self.counts["forced"] += 1
            self.switch("F", forced=True)
        elif self.replay:
            if self.d in self.tape_in:
                self.preempts += 1
                self.switch("L", preempting=True)
        elif self.p > 0.0 and self.rng.random() < self.p:
            self.preempts += 1
            self.switch("L", preempting=True)

    def point(self, why="Y"):
        """A non-blocking decision point (after a seam call that completed)."""
        me = self.me()
        if me is None or not self.active:
            return
        self._advance()
        if self.replay:
            if self.d in self.tape_in:
                self.switch(why, preempting=True)
        elif self.policy != "nopreempt" and self.rng.random() < max(self.p, 0.05):
            self.switch(why, preempting=True)

    def block(self, pred, timeout=None, why="block"):
        """Block the calling thread until pred() or timeout.  True iff pred held."""
        me = self.me()
        if me is None or not self.active:
            raise RuntimeError("block() outside simulation")
        if pred():
            return True  # no yield here: callers complete their atomic action, then call point()
        if timeout is not None and timeout <= 0:
            self.point(why)  # a failed poll: nothing atomic follows, and spin loops must yield
            return bool(pred())
        self._advance()
        me.pred = pred
        me.deadline = None if timeout is None else self.now + timeout
        me.timed_out = False
        me.why = why
        self.switch(why)
        return not me.timed_out

    def sleep(self, d):
        me = self.me()
        if me is None or not self.active:
            return
        self._advance()
        me.pred = _never
        me.deadline = self.now + max(float(d), 0.0)
        me.why = "sleep"
        self.switch("sleep")

    def wait_quiescent(self, timeout, include=lambda r: True):
        """Main thread: wait until every other registered thread is done."""
        me = self.me()
        return self.block(
            lambda: all(r.done for r in self.recs if r is not me and include(r)),
            timeout,
            "quiesce",
        )

    def alive(self, kinds=("thread",)):
        me = self.me()
        return [r for r in self.recs if not r.done and r is not me and r.kind in kinds]

    # ------------------------------------------------------------------ spawning kernel tasks
    def spawn(self, body, name, kind):
        """Run body() as a new kernel task on a fresh OS thread (used for SimProc)."""
        box = []
        hs = _thread.allocate_lock()
        hs.acquire()
        k = self

        def boot():
            r = k.register_current(name, kind)
            box.append(r)
            hs.release()
            r.baton.acquire()
            try:
                body()
            except SimExit:
                pass
            finally:
                r.done = True
                k.progress += 1
                if k.active:
                    try:
                        k._advance()
                        k.switch("exit")
                    except SimExit:
                        pass

        t = threading.Thread(target=boot, daemon=True)
        _real_start(t)
        hs.acquire()
        self.note(f"spawn:{box[0].name}")
        return box[0]


def _never():
    return False


# ---------------------------------------------------------------------- threading patches
def _thread_label(t):
    tgt = getattr(t, "_target", None)
    cls = type(t).__name__
    if tgt is not None and cls == "Thread":
        return f"Thread({getattr(tgt, '__name__', 'fn')})"
    return cls


def _t_start(self):
    k = K
    if k is None or not k.active or k.me() is None:
        return _real_start(self)
    orig_run = self.run
    box = []
    hs = _thread.allocate_lock()
    hs.acquire()
    label = _thread_label(self)

    def run():
        r = k.register_current(label, "thread")
        r.daemon = self.daemon
        box.append(r)
        self._sim_rec = r
        hs.release()
        r.baton.acquire()
        try:
            orig_run()
        except SimExit:
            pass
        except BaseException:  # noqa: B902
            # report while this thread still holds the baton: the interpreter's own reporting would
            # run after the hand-over, concurrently with the next thread (it opens source files)
            try:
                threading.excepthook(threading.ExceptHookArgs((*sys.exc_info(), self)))
            except BaseException:  # noqa: B902
                pass
        finally:
            r.done = True
            k.progress += 1
            if k.active:
                try:
                    k._advance()
                    k.switch("exit")
                except SimExit:
                    pass

    self.run = run
    _real_start(self)
    hs.acquire()
    k.note(f"start:{box[0].name}")
    k.point("start")


def _t_join(self, timeout=None):
    r = getattr(self, "_sim_rec", None)
    k = K
    if r is None or k is None or not k.active:
        if r is not None:
            return  # simulated thread after the simulation ended: never block for real
        return _real_join(self, timeout)
    k.block(lambda: r.done, timeout, "join")
    k.point("joined")


def _t_is_alive(self):
    r = getattr(self, "_sim_rec", None)
    if r is None:
        return _real_is_alive(self)
    return not r.done


# ---------------------------------------------------------------------- sync primitives
class SimLock:
    def __init__(self):
        self.owner = None
        self.count = 0

    def acquire(self, blocking=True, timeout=-1):
        me = _thread.get_ident()
        k = K
        if k is None or not k.active or k.me() is None:
            self.owner = me
            self.count = 1
            return True
        if self.owner is None:
            self.owner = me
            self.count = 1
            k.point("lock")
            return True
        if not blocking:
            return False
        to = None if timeout is None or timeout < 0 else timeout
        ok = k.block(lambda: self.owner is None, to, "lockwait")
        if not ok:
            return False
        self.owner = me
        self.count = 1
        k.point("locked")
        return True

    def release(self):
        self.owner = None
        self.count = 0

    def locked(self):
        return self.owner is not None

    def __enter__(self):
        return self.acquire()

    def __exit__(self, *a):
        self.release()

    def _is_owned(self):
        return self.owner == _thread.get_ident()


class SimRLock(SimLock):
    def acquire(self, blocking=True, timeout=-1):
        me = _thread.get_ident()
        if self.owner == me:
            self.count += 1
            return True
        return SimLock.acquire(self, blocking, timeout)

    def release(self):
        if self.owner != _thread.get_ident():
            raise RuntimeError("cannot release un-acquired lock")
        self.count -= 1
        if self.count <= 0:
            self.owner = None
            self.count = 0

    def __enter__(self):
        return self.acquire()


class SimCondition:
    def __init__(self, lock=None):
        self._lock = lock if lock is not None else SimRLock()
        self._waiters = []

    def __enter__(self):
        return self._lock.acquire()

    def __exit__(self, *a):
        self._lock.release()

    def acquire(self, *a, **kw):
        return self._lock.acquire(*a, **kw)

    def release(self):
        self._lock.release()

    def notify(self, n=1):
        for w in self._waiters[:n]:
            w[0] = True
        del self._waiters[:n]

    def notify_all(self):
        self.notify(len(self._waiters))

    notifyAll = notify_all

    def wait(self, timeout=None):
        k = K
        if k is None or not k.active or k.me() is None:
            return True
        lk = self._lock
        cnt = lk.count
        lk.owner = None
        lk.count = 0
        w = [False]
        self._waiters.append(w)
        ok = k.block(lambda: w[0], timeout, "condwait")
        if not ok:
            try:
                self._waiters.remove(w)
            except ValueError:
                pass
        k.block(lambda: lk.owner is None, None, "condreacq")
        lk.owner = _thread.get_ident()
        lk.count = max(cnt, 1)
        k.point("condwake")
        return ok

    def wait_for(self, predicate, timeout=None):
        k = K
        endtime = None
        result = predicate()
        while not result:
            if timeout is not None:
                if endtime is None:
                    endtime = k.now + timeout
                waittime = endtime - k.now
                if waittime <= 0:
                    break
            else:
                waittime = None
            self.wait(waittime)
            result = predicate()
        return result


class SimEvent:
    def __init__(self):
        self._flag = False

    def is_set(self):
        return self._flag

    isSet = is_set

    def set(self):
        self._flag = True

    def clear(self):
        self._flag = False

    def wait(self, timeout=None):
        k = K
        if k is None or not k.active or k.me() is None:
            return self._flag
        return k.block(lambda: self._flag, timeout, "evwait")


class SimSemaphore:
    def __init__(self, value=1):
        self._value = value

    def acquire(self, blocking=True, timeout=None):
        k = K
        if self._value > 0 or k is None or not k.active:
            self._value -= 1
            return True
        if not blocking:
            return False
        ok = k.block(lambda: self._value > 0, timeout, "semwait")
        if ok:
            self._value -= 1
        return ok

    def release(self, n=1):
        self._value += n

    __enter__ = acquire

    def __exit__(self, *a):
        self.release()


import queue as _queue  # noqa: E402


class SimQueue:
    def __init__(self, maxsize=0):
        self.q = collections.deque()
        self.maxsize = maxsize

    def put(self, x, block=True, timeout=None):
        k = K
        if self.maxsize > 0 and len(self.q) >= self.maxsize:
            if not block or k is None or not k.active:
                raise _queue.Full
            if not k.block(lambda: len(self.q) < self.maxsize, timeout, "qputwait"):
                raise _queue.Full
        self.q.append(x)
        if k is not None and k.active:
            k.point("qput")

    def put_nowait(self, x):
        return self.put(x, block=False)

    def get(self, block=True, timeout=None):
        k = K
        if k is None or not k.active or k.me() is None or not block:
            if self.q:
                return self.q.popleft()
            raise _queue.Empty
        ok = k.block(lambda: bool(self.q), timeout, "qget")
        if not ok:
            raise _queue.Empty
        x = self.q.popleft()
        k.point("qgot")
        return x

    def get_nowait(self):
        return self.get(block=False)

    def empty(self):
        return not self.q

    def qsize(self):
        return len(self.q)

    def full(self):
        return self.maxsize > 0 and len(self.q) >= self.maxsize

    def task_done(self):
        pass


class ModProxy:
    """Stand-in for a module object: attribute overrides first, then the real module."""

    def __init__(self, real, **over):
        self.__dict__["_real"] = real
        self.__dict__.update(over)

    def __getattr__(self, n):
        return getattr(self.__dict__["_real"], n)

    def __setattr__(self, n, v):
        self.__dict__[n] = v


def _sim_sleep(d):
    k = K
    if k is not None and k.active and k.me() is not None:
        k.sleep(d)


def _sim_time():
    k = K
    return TIME_BASE + (k.now if k is not None else 0.0)


def _sim_mono():
    k = K
    return 1000.0 + (k.now if k is not None else 0.0)


def _sim_time_ns():
    return int(_sim_time() * 1e9)


SIM_TIME = ModProxy(
    _time,
    sleep=_sim_sleep,
    time=_sim_time,
    monotonic=_sim_mono,
    perf_counter=_sim_mono,
    time_ns=_sim_time_ns,
)
SIM_QUEUE = ModProxy(_queue, Queue=SimQueue, SimpleQueue=SimQueue)
SIM_THREADING = ModProxy(
    threading,
    Lock=SimLock,
    RLock=SimRLock,
    Condition=SimCondition,
    Event=SimEvent,
    Semaphore=SimSemaphore,
    BoundedSemaphore=SimSemaphore,
)

# ---------------------------------------------------------------------- line pre-emption
TOOL_ID = 4
_mon = getattr(sys, "monitoring", None)
_traced = []


def _line_cb(code, line):
    k = K
    if k is not None and k.active:
        if k.full is not None:
            me = k.by_ident.get(_thread.get_ident())
            if me is not None:
                k.full.append(f"   t{me.tid} {code.co_filename.rsplit('/', 1)[-1]}:{line} {code.co_name}")
        site = None
        if k.sites or k.sites_seen is not None:
            site = (code.co_filename.rsplit("/", 1)[-1], line)
            if k.sites_seen is not None:
                k.sites_seen.add(site)
        k.preempt(site)


def collect_codes(module, out=None):
    """All code objects defined by functions/classes of *module* (recursively)."""
    out = [] if out is None else out
    seen = set()
    modname = module.__name__

    def walk_code(c):
        out.append(c)
        for const in c.co_consts:
            if isinstance(const, types.CodeType):
                walk_code(const)

    def visit(obj):
        if id(obj) in seen:
            return
        seen.add(id(obj))
        if isinstance(obj, (staticmethod, classmethod)):
            obj = obj.__func__
        if hasattr(obj, "__wrapped__") and isinstance(
            getattr(obj, "__wrapped__", None), types.FunctionType
        ):
            visit(obj.__wrapped__)
        if isinstance(obj, types.FunctionType):
            if obj.__module__ == modname:
                walk_code(obj.__code__)
        elif isinstance(obj, property):
            for f in (obj.fget, obj.fset, obj.fdel):
                if f is not None:
                    visit(f)
        elif isinstance(obj, type):
            if obj.__module__ == modname:
                for v in list(obj.__dict__.values()):
                    visit(v)

    for v in list(module.__dict__.values()):
        visit(v)
    return out


def install_threading_patches():
    threading.Thread.start = _t_start
    threading.Thread.join = _t_join
    threading.Thread.is_alive = _t_is_alive


def trace_modules(modules, skip=()):
    """Enable LINE pre-emption on every code object of the given modules."""
    if _mon is None:
        raise RuntimeError("sys.monitoring unavailable (need Python >= 3.12)")
    if _mon.get_tool(TOOL_ID) is None:
        _mon.use_tool_id(TOOL_ID, "simkit")
        _mon.register_callback(TOOL_ID, _mon.events.LINE, _line_cb)
    n = 0
    for m in modules:
        for c in collect_codes(m):
            if c.co_name in skip:
                continue
            _mon.set_local_events(TOOL_ID, c, _mon.events.LINE)
            _traced.append(c)
            n += 1
    return n


def rebind_module_names(module, **names):
    """module.<name> = proxy for every given name that the module has as a global."""
    done = []
    for nm, val in names.items():
        if nm in module.__dict__:
            setattr(module, nm, val)
            done.append(nm)
    return done


_REAL_LOCK_T = type(_thread.allocate_lock())
_REAL_RLOCK_T = type(threading.RLock())


def rebind_locks(module):
    """Replace module-level (and class-level) real lock objects by simulated ones.

    A real lock held across a pre-emption point would block a baton holder for real."""
    done = []
    spaces = [module.__dict__]
    for v in list(module.__dict__.values()):
        if isinstance(v, type) and v.__module__ == module.__name__:
            spaces.append(v)
    for sp in spaces:
        items = list(sp.items()) if isinstance(sp, dict) else list(vars(sp).items())
        for name, val in items:
            new = None
            if type(val) is _REAL_LOCK_T:
                new = SimLock()
            elif type(val) is _REAL_RLOCK_T:
                new = SimRLock()
            if new is not None:
                if isinstance(sp, dict):
                    sp[name] = new
                else:
                    setattr(sp, name, new)
                done.append(name)
    return done
