#!/usr/bin/env python3
"""selftest/sensitivity.py [IDS...] [--suite] [--par N]

For every kept seeded change (/verif/seeded/<id>/: a realistic breaking change written by an
independent sub-agent that saw only the property text): make a scratch worktree of /repo's HEAD
outside /repo and /verif, apply the change there (3-way, so that it also applies on top of later
fix commits), run the property's quick check against that tree (VERIF_REPO) and require exit 1
with a `VIOLATION property=<id>` line, and the minimised replay file it names must reproduce the violation
(exit 1, same event-log digest) in a fresh process against the changed tree; remove the worktree.  With --suite the pinned test-suite is
run on the changed tree too and the outcome appended to seeded/SUITE_RESULTS.md (a seeded change
is only interesting if the existing tests do not notice it).  Exit 0 iff every change is caught.
"""
import concurrent.futures as cf
import json
import os
import subprocess
import sys
import time

HERE = os.path.dirname(os.path.dirname(os.path.abspath(__file__)))
REPO = os.environ.get("VERIF_REPO", "/repo")
args = [a for a in sys.argv[1:] if not a.startswith("--")]
suite = "--suite" in sys.argv or "--suite-only" in sys.argv
suite_only = "--suite-only" in sys.argv  # (the suite runs are slow and run in parallel: do not race the checks against them)
par = 1
if "--par" in sys.argv:
    par = int(sys.argv[sys.argv.index("--par") + 1])
    args = [a for a in args if a != str(par)]
ids = args or sorted(d for d in os.listdir(os.path.join(HERE, "seeded")) if os.path.isfile(os.path.join(HERE, "seeded", d, "meta.json")))


def sh(cmd, **kw):
    return subprocess.run(cmd, capture_output=True, text=True, **kw)


def one(mid):
    d = os.path.join(HERE, "seeded", mid)
    meta = json.load(open(os.path.join(d, "meta.json")))
    prop = meta["property"]
    wt = f"/var/tmp/sens-{mid}-{os.getpid()}"
    sh(["git", "-C", REPO, "worktree", "remove", "--force", wt])
    r = sh(["git", "-C", REPO, "worktree", "add", "--detach", wt, "HEAD"])
    if r.returncode:
        return mid, prop, "harness", f"worktree: {r.stderr[-200:]}", None
    try:
        patches = sorted(f for f in os.listdir(d) if f.endswith(".diff"))
        applied = None
        for f in sorted(patches, key=lambda x: (not x.startswith("patch_rebased"), x)):
            r = sh(["git", "-C", wt, "apply", "-3", os.path.join(d, f)])
            if r.returncode == 0:
                applied = f
                break
            sh(["git", "-C", wt, "checkout", "--", "."])
        if applied is None:
            return mid, prop, "harness", f"no patch applies: {r.stderr[-300:]}", None
        t0 = time.time()
        if suite_only:
            caught, summ, viol = True, "check not run (--suite-only)", []
            p = subprocess.CompletedProcess([], 0)
        else:
            env = dict(os.environ, VERIF_REPO=wt, VERIF_NO_EVIDENCE="1")
            p = sh([os.path.join(HERE, "check"), prop, "--tier", "quick"], env=env, cwd=HERE)
            viol = [ln for ln in p.stdout.splitlines() if ln.startswith(f"VIOLATION property={prop} ")]
            summ = next((ln for ln in p.stdout.splitlines() if "tier=quick" in ln and "runs=" in ln), "")
            caught = p.returncode == 1 and bool(viol)
            if caught:
                # the minimised replay file must reproduce the violation exactly, in a fresh process
                rp = viol[0].split("replay=", 1)[1].strip()
                r = sh([os.path.join(HERE, "check"), prop, "--replay", rp], env=env, cwd=HERE)
                rep = [ln for ln in r.stdout.splitlines() if ln.startswith("REPRODUCED ")]
                if r.returncode != 1 or not rep or "digest_match=True" not in rep[0]:
                    caught = False
                    summ += f" REPLAY DID NOT REPRODUCE ({r.returncode}: {r.stdout[-160:]!r})"
                else:
                    summ += " replay reproduces (digest match)"
        srow = None
        if suite:
            s = sh(["/usr/bin/env", "python3", os.path.join(HERE, "tools", "suite_check.py"), wt, f"/var/tmp/suite-{mid}-{os.getpid()}"])
            srow = next((ln for ln in s.stdout.splitlines() if ln.startswith("suite in")), s.stdout[-200:])
            srow += "".join("\n      " + ln.strip() for ln in s.stdout.splitlines() if "MISSING" in ln)
            for ext in (".log", ".junit.xml"):
                try:
                    os.remove(f"/var/tmp/suite-{mid}-{os.getpid()}{ext}")
                except OSError:
                    pass
        return mid, prop, "caught" if caught else "MISSED", f"{applied}; exit {p.returncode}; {len(viol)} VIOLATION lines; {summ.strip()} ({time.time() - t0:.0f}s)", srow
    finally:
        sh(["git", "-C", REPO, "worktree", "remove", "--force", wt])


bad = 0
rows = []
with cf.ThreadPoolExecutor(max_workers=par) as ex:
    for mid, prop, verdict, detail, srow in ex.map(one, ids):
        print(f"[sensitivity] {mid} ({prop}): {verdict} - {detail}", flush=True)
        if srow:
            print(f"    suite: {srow}", flush=True)
        rows.append((mid, prop, verdict, detail, srow))
        if verdict != "caught":
            bad += 1
if suite:
    head = sh(["git", "-C", REPO, "rev-parse", "--short", "HEAD"]).stdout.strip()
    path = os.path.join(HERE, "seeded", "SUITE_RESULTS.md")
    keep = {}
    if os.path.isfile(path):  # rows of earlier runs for changes not re-run now are kept
        for ln in open(path):
            if ln.startswith("| C") and ln.split("|")[1].strip() not in {r[0] for r in rows}:
                keep[ln.split("|")[1].strip()] = ln
    with open(path, "w") as f:
        f.write("# Seeded changes: the pinned test-suite and the checks\n\n")
        f.write(f"Written by `selftest/sensitivity.py --suite` (last update {time.strftime('%Y-%m-%d %H:%M UTC', time.gmtime())}, /repo HEAD {head}); every change applied (3-way) on the /repo HEAD of its run in a scratch worktree.\n")
        f.write("`stable tests not passing: 0` means all 7502 tests of /root/.vp/BASELINE.json stable_pass passed with the change applied.\n\n")
        f.write("Which check catches which change: DESIGN.md section 8.5 and `selftest/sensitivity.py`.\n\n")
        f.write("| change | property | patch applied | pinned suite with the change applied |\n|---|---|---|---|\n")
        out = dict(keep)
        for mid, prop, verdict, detail, srow in rows:
            out[mid] = f"| {mid} | {prop} | {detail.split(';')[0]} | {(srow or 'not run').replace(chr(10), '<br>')} |\n"
        for mid in sorted(out):
            f.write(out[mid])
sys.exit(1 if bad else 0)
