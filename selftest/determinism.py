#!/usr/bin/env python3
"""selftest/determinism.py [IDS...] [--runs N]

For every engine the same VERIF_SEED is run in four configurations, each in fresh interpreters
 (a)  PYTHONHASHSEED=0,     16 workers      (c) PYTHONHASHSEED=0, 3 workers
 (b)  PYTHONHASHSEED=12345, 16 workers      (b2) the same again
and the per-run (seed, event-log digest, number of violations) records are compared run by run:
a == c (one seed is one execution however the runs are spread over worker processes), b == b2 (also
under another hash randomisation), and a vs b must agree on every verdict; whether their event logs
agree too is reported (where the code under test iterates sets of strings, the order of its own
line events legitimately depends on the hash seed - ./check pins PYTHONHASHSEED=0 for that reason).
Exit 0 iff a == c, b == b2 and no verdict differs.
(The checks themselves re-run every 50th case in a second forked child and compare digests, too;
that figure is in every evidence file as determinism_rechecks.)
"""
import os
import subprocess
import sys
import tempfile

HERE = os.path.dirname(os.path.dirname(os.path.abspath(__file__)))
sys.path.insert(0, HERE)
import checkmain  # noqa: E402

args = [a for a in sys.argv[1:] if not a.startswith("--")]
runs = 400
if "--runs" in sys.argv:
    runs = int(sys.argv[sys.argv.index("--runs") + 1])
    args = [a for a in args if a != str(runs)]
ids = args or sorted(checkmain.ENGINES)
bad = 0
with tempfile.TemporaryDirectory(dir="/var/tmp") as tmp:
    for pid in ids:
        outs = {}
        for tag, hs, jobs in (("a", "0", "16"), ("c", "0", "3"), ("b", "12345", "16"), ("b2", "12345", "16")):
            f = os.path.join(tmp, f"{pid}.{tag}")
            env = dict(os.environ, VERIF_HASHSEED=hs, VERIF_DIGESTS=f, VERIF_NO_EVIDENCE="1")
            p = subprocess.run([os.path.join(HERE, "check"), pid, "--runs", str(runs), "--jobs", jobs], env=env, capture_output=True, text=True, cwd=HERE)
            try:
                outs[tag] = {int(ln.split()[0]): ln for ln in open(f).read().splitlines()}
            except OSError:
                outs[tag] = {}
                print(f"   {pid}.{tag}: no digest file; exit {p.returncode}: {p.stdout[-300:]} {p.stderr[-300:]}")

        def diff(x, y, field=None):
            common = sorted(set(outs[x]) & set(outs[y]))
            if field is None:
                return common, [i for i in common if outs[x][i] != outs[y][i]]
            return common, [i for i in common if outs[x][i].split()[field] != outs[y][i].split()[field]]

        ac, d_ac = diff("a", "c")
        bb, d_bb = diff("b", "b2")
        ab, d_ab = diff("a", "b")
        _, v_ab = diff("a", "b", 3)
        ok = bool(ac) and bool(bb) and not d_ac and not d_bb and not v_ab
        print(
            f"[determinism] {pid}: same seed, 16 vs 3 workers: {len(ac) - len(d_ac)}/{len(ac)} identical digests; "
            f"PYTHONHASHSEED=12345 twice: {len(bb) - len(d_bb)}/{len(bb)} identical; "
            f"hashseed 0 vs 12345: verdicts differ in {len(v_ab)} runs, digests differ in {len(d_ab)}/{len(ab)} "
            f"({'schedule independent of hash order' if not d_ab else 'event log depends on set/dict iteration order inside the code under test - pinned by ./check via PYTHONHASHSEED=0'})  "
            f"{'OK' if ok else 'FAILED'}",
            flush=True,
        )
        if not ok:
            bad += 1
            for i in (d_ac + d_bb + v_ab)[:3]:
                print("   ", {t: outs[t].get(i) for t in outs})
sys.exit(1 if bad else 0)
