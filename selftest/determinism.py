#!/usr/bin/env python3
"""selftest/determinism.py [IDS...] [--runs N]

For every engine: the same VERIF_SEED is run in three configurations, each in fresh interpreters
 (a) PYTHONHASHSEED=0,     16 workers
 (b) PYTHONHASHSEED=12345, 16 workers
 (c) PYTHONHASHSEED=0,      3 workers
and the per-run (seed, event-log digest, number of violations) lists are compared line by line.
One seed must be one execution, whatever the interpreter's hash randomisation and however the runs
are spread over worker processes.  Exit 0 iff all lists are identical for all engines.
(The checks themselves re-run every 50th case in a second forked child and compare digests, too;
that figure is in every evidence file as determinism_rechecks.)
"""
import os
import subprocess
import sys
import tempfile

HERE = os.path.dirname(os.path.dirname(os.path.abspath(__file__)))
sys.path.insert(0, HERE)
import checkmain  # noqa: E402

args = [a for a in sys.argv[1:] if not a.startswith("--")]
runs = 400
if "--runs" in sys.argv:
    runs = int(sys.argv[sys.argv.index("--runs") + 1])
    args = [a for a in args if a != str(runs)]
ids = args or sorted(checkmain.ENGINES)
bad = 0
with tempfile.TemporaryDirectory(dir="/var/tmp") as tmp:
    for pid in ids:
        outs = []
        for tag, hs, jobs in (("a", "0", "16"), ("b", "12345", "16"), ("c", "0", "3")):
            f = os.path.join(tmp, f"{pid}.{tag}")
            env = dict(os.environ, VERIF_HASHSEED=hs, VERIF_DIGESTS=f, VERIF_NO_EVIDENCE="1")
            p = subprocess.run([os.path.join(HERE, "check"), pid, "--runs", str(runs), "--jobs", jobs], env=env, capture_output=True, text=True, cwd=HERE)
            try:
                lines = sorted(open(f).read().splitlines(), key=lambda ln: int(ln.split()[0]))
            except OSError:
                lines = [f"<no digest file; exit {p.returncode}: {p.stdout[-300:]} {p.stderr[-300:]}>"]
            outs.append(lines)
        n = min(len(o) for o in outs)
        diff = [i for i in range(n) if not (outs[0][i] == outs[1][i] == outs[2][i])]
        same_len = len({len(o) for o in outs}) == 1
        ok = not diff and same_len and n > 0
        print(f"[determinism] {pid}: {n} runs x 3 configurations (hashseed 0/12345, 16/3 workers): {'identical' if ok else 'DIFFERENT'}" + ("" if ok else f" first differing runs {diff[:5]} lengths {[len(o) for o in outs]}"))
        if not ok:
            bad += 1
            for i in diff[:3]:
                print("   ", outs[0][i], "|", outs[1][i], "|", outs[2][i])
sys.exit(1 if bad else 0)
