"""C12 - history records every command once, in order, and reads it back verbatim.

JsonHistory (real flusher threads under the SimKernel, simulated Condition, line
pre-emption in history/json.py and lib/lazyjson.py) and SqliteHistory, driven by one
client thread through append/flush/clear/read operations against a list model.
"""

import copy
import hashlib
import json
import os
import traceback

from simkit import kernel as _k
from simkit import procworld
from simkit.engine import Engine

TEXT_POOL = (
    "ls -l",
    "echo 'single quoted'",
    'echo "double \\"quoted\\""',
    "for i in range(3):\n    print(i)\n",
    "echo café naïve 中文",
    "echo \U0001d11e astral \U0001f600",
    "echo é combining",
    "echo back\\\\slash \\n literal",
    "echo tab\there",
    "echo ctrl\x01\x1f\x7f chars",
    "echo trailing spaces   ",
    "echo trailing newline\n",
    "x = '''triple\nquoted'''",
    "echo   line sep \u0085 nel",
    "echo {\"json\": [1, 2, {\"a\": null}]}",
    "",
    " leading space",
    "echo ퟿ bmp edges",
)

READS = ("len", "get", "neg", "inps", "rtns", "tss", "slice", "items", "iter_all")


def cmd_text(tid, uniq):
    base = TEXT_POOL[tid % len(TEXT_POOL)]
    return base if uniq is None else f"{base} #{uniq}"


class C12(Engine):
    property_id = "C12"
    level = "exploration"
    budgets = {
        "quick": {"runs": 9000, "wall": 75, "min_runs": 200, "min_wall": 30},
        "thorough": {"runs": 400000, "wall": 1500, "min_runs": 500, "min_wall": 90},
    }
    rule = (
        "case = backend (json|sqlite) x buffer size x $HISTCONTROL x op list (append/flush/flush_exit/clear/reads/quiesce, 3-45 ops) x "
        "schedule knobs; flusher threads are kernel threads, so when each runs relative to the client's next operation is a seeded "
        "decision. non-trivial = >=1 flusher thread ran concurrently with a later client operation or >=1 pre-emption, and >=3 ops; "
        "distinct = distinct (op-kind sequence, schedule digest)"
    )
    state_measure = "distinct (backend, buffer size, HISTCONTROL, op-kind sequence prefix of 8)"
    assumptions = [
        "one client thread (the statement quantifies over flusher timings, not concurrent clients)",
        "strictly increasing timestamps (SQLite orders by tsb)",
        "SQLite code is not pre-empted inside a transaction (C code); no I/O faults in this property (see C13)",
        "exclusion rules: a command that no $HISTCONTROL/ignore rule can exclude must be readable; one that a rule may exclude may be absent",
    ]
    components = {
        "real": ["history.json.JsonHistory/JsonHistoryFlusher/JsonCommandField", "lib.lazyjson", "history.sqlite.SqliteHistory", "history.base.History", "sqlite3", "real files"],
        "stub": ["scheduler", "clock", "threading.Condition/Lock"],
    }
    expected_probes = ["read_while_flusher_pending", "flusher_queued_behind_flusher", "clear_while_flusher_pending", "file_read"]

    def warmup(self):
        w = procworld.warm(extra_traced=("xonsh.history.json", "xonsh.lib.lazyjson"))
        import xonsh.history.json as hj
        import xonsh.history.sqlite as hs

        _k.rebind_module_names(hj, threading=_k.SIM_THREADING, time=_k.SIM_TIME)
        _k.rebind_module_names(hs, time=_k.SIM_TIME)
        return w

    # ------------------------------------------------------------------ generation
    def gen_case(self, rng, tier, seed):
        backend = "json" if rng.random() < 0.8 else "sqlite"
        hc = rng.choice(([], [], [], ["ignoredups"], ["ignoredups"], ["ignoreerr"], ["ignorespace"], ["ignoredups", "ignoreerr"]))
        nops = rng.randint(3, 45 if tier == "thorough" else 30)
        ops = []
        uniq = 0
        last_tid = None
        wr = {"append": 10, "flush": 2, "flush_exit": 0.5, "clear": 0.6, "read": 7, "quiesce": 1}
        kinds = list(wr)
        for _ in range(nops):
            k = rng.choices(kinds, [wr[x] for x in kinds])[0]
            if k == "append":
                if last_tid is not None and rng.random() < 0.25:
                    tid, u = last_tid  # deliberate consecutive duplicate
                else:
                    uniq += 1
                    tid, u = rng.randrange(len(TEXT_POOL)), (uniq if rng.random() < 0.85 else None)
                last_tid = (tid, u)
                ops.append(["append", tid, u, rng.choice((0, 0, 0, 1, 2)), int(rng.random() < 0.15)])
            elif k == "read":
                ops.append([rng.choice(READS), rng.randrange(0, 1000), rng.randrange(0, 1000)])
            else:
                ops.append([k])
        knobs = {
            "p": rng.choice((0.0, 0.02, 0.1, 0.3)),
            "policy": rng.choice(("random", "random", "starve", "pct", "nopreempt")),
            "victim": rng.randrange(1, 6),
            "pct_points": sorted(rng.randrange(1, 4000) for _ in range(rng.choice((1, 2, 3)))),
            "clock_seed": rng.randrange(1 << 30),
            "max_steps": 400000,
        }
        return {
            "seed": seed,
            "backend": backend,
            "buffersize": rng.choice((1, 2, 3, 5, 100)),
            "histcontrol": hc,
            "ignore_regex": rng.choice((None, None, None, "echo tab")),
            "store_stdout": rng.random() < 0.3,
            "ops": ops,
            "knobs": knobs,
        }

    def simplify(self, case):
        if case["knobs"]["policy"] != "random":
            c = copy.deepcopy(case)
            c["knobs"]["policy"] = "random"
            yield c
        for p in (0.0, 0.02):
            if case["knobs"]["p"] > p:
                c = copy.deepcopy(case)
                c["knobs"]["p"] = p
                yield c
        if case["ignore_regex"]:
            c = copy.deepcopy(case)
            c["ignore_regex"] = None
            yield c
        if case["store_stdout"]:
            c = copy.deepcopy(case)
            c["store_stdout"] = False
            yield c
        for i, op in enumerate(case["ops"]):
            if op[0] == "append" and (op[1] != 0 or op[4]):
                c = copy.deepcopy(case)
                c["ops"][i] = ["append", 0, op[2], op[3], 0]
                yield c

    # ------------------------------------------------------------------ execution
    def run_case(self, case, tape, emit):
        ctx = procworld.RunCtx(case["seed"], case["knobs"], tape, emit)
        XSH = ctx.XSH
        env = XSH.env
        env["HISTCONTROL"] = set(case["histcontrol"])
        env["XONSH_STORE_STDOUT"] = bool(case["store_stdout"])
        env["XONSH_HISTORY_IGNORE_REGEX"] = case["ignore_regex"] or ""
        env["XONSH_HISTORY_SAVE_CWD"] = True
        import xonsh.history.json as hj
        import xonsh.history.sqlite as hs

        ctx.start()
        k = ctx.k
        hc = set(case["histcontrol"])
        backend = case["backend"]
        if backend == "json":
            fname = os.path.join(ctx.dir, "xonsh-sess.json")
            h = hj.JsonHistory(filename=fname, sessionid="sess", buffersize=case["buffersize"], gc=False, ts=[1000.0, None], locked=True)
        else:
            fname = os.path.join(ctx.dir, "hist.sqlite")
            h = hs.SqliteHistory(gc=False, filename=fname, sessionid="sess")
        XSH.history = h
        import re

        ign = re.compile(case["ignore_regex"]) if case["ignore_regex"] else None
        # ---- model -------------------------------------------------------------------------
        A = []  # dicts: inp, rtn, ts, must (cannot be excluded by any rule)
        V = []
        probes = {"read_while_flusher_pending": 0, "flusher_queued_behind_flusher": 0, "clear_while_flusher_pending": 0, "file_read": 0, "reads": 0, "appends": 0}
        tsn = [0]
        last_sql_inp = [None]

        def viol(clause, msg, **sig):
            s = {"backend": backend, "hc": "+".join(sorted(hc)) or "none"}
            s.update(sig)
            V.append({"clause": clause, "msg": msg, "sig": s})

        def pending():
            return len(h._queue) if backend == "json" else 0

        def want_inp(e):
            return e["inp"].rstrip() if backend == "sqlite" else e["inp"]

        def nmust_before(kidx):
            return sum(1 for e in A[:kidx] if e["must"])

        def check_entry(i, got_inp=None, got_rtn=None, got_ts=None, what="read"):
            """An element read at index i: identify it by timestamp/text and check position + fields."""
            cand = None
            if got_ts is not None:
                t0 = got_ts[0] if isinstance(got_ts, (list, tuple)) else got_ts
                cand = [j for j, e in enumerate(A) if e["ts"][0] == t0]
            elif got_inp is not None:
                cand = [j for j, e in enumerate(A) if want_inp(e) == got_inp]
            elif got_rtn is not None:
                cand = [j for j, e in enumerate(A) if e["rtn"] == got_rtn]
            if not cand:
                viol("read.subseq", f"{what}[{i}] returned something never appended since the last clear: inp={got_inp!r} rtn={got_rtn!r} ts={got_ts!r}; appended={[(e['inp'][:20], e['ts'][0]) for e in A]}", kind="invented", pending=pending() > 0)
                return
            ok = [j for j in cand if nmust_before(j) <= i <= j]
            if not ok:
                viol(
                    "read.subseq",
                    f"{what}[{i}] returned appended entry #{cand} (ts {got_ts!r} inp {got_inp!r}) which cannot sit at index {i} of any in-order view without loss or duplication; "
                    f"appended={[(e['inp'][:16], e['ts'][0], e['must']) for e in A]}",
                    kind="misplaced",
                    pending=pending() > 0,
                )
                return
            e = A[ok[0]]
            if got_inp is not None and got_ts is not None and got_inp != want_inp(e):
                viol("fields.verbatim", f"{what}[{i}] text {got_inp!r} != appended {want_inp(e)!r}", field="inp")
            if got_rtn is not None and got_ts is not None and got_rtn != e["rtn"]:
                viol("fields.verbatim", f"{what}[{i}] rtn {got_rtn!r} != appended {e['rtn']!r}", field="rtn")
            if got_ts is not None and backend == "json" and list(got_ts) != list(e["ts"]):
                viol("fields.verbatim", f"{what}[{i}] ts {got_ts!r} != appended {e['ts']!r}", field="ts")

        def must_count():
            return sum(1 for e in A if e["must"])

        def read_len():
            n = len(h)
            if not (must_count() <= n <= len(A)):
                viol("len.bounds", f"len(history)={n} outside [{must_count()}, {len(A)}] (commands no rule can exclude .. commands appended)", pending=pending() > 0)
            return n

        def guarded(what, i, fn):
            """Run a single read; an exception for an index every legitimate view has is a violation."""
            try:
                return True, fn()
            except IndexError as e:
                if i is not None and 0 <= i < must_count():
                    viol("index.total", f"{what}[{i}] raised IndexError({e}) although at least {must_count()} commands are readable under every rule; pending flushers={pending()}", pending=pending() > 0, exc="IndexError")
                return False, None
            except Exception as e:  # noqa: BLE001
                if i is None or 0 <= i < must_count():
                    # (an index that some legitimate view does not have may fail in any way)
                    viol("index.total", f"{what}[{i}] raised {type(e).__name__}: {e}\n{traceback.format_exc()[-900:]}", pending=pending() > 0, exc=type(e).__name__)
                return False, None

        def full_check(tag):
            """At quiescence: the whole sequence, the disk and the lazy index."""
            n = read_len()
            seq = []
            for i in range(n):
                ok, ent = guarded("hist", i, lambda i=i: h[i])
                if not ok:
                    viol("index.total", f"{tag}: hist[{i}] failed with len(hist)={n} at quiescence", quiescent=True)
                    return
                seq.append(ent)
            ts_seq = [e.ts[0] if isinstance(e.ts, (list, tuple)) else e.ts for e in seq]
            ids = []
            for t0 in ts_seq:
                js = [j for j, e in enumerate(A) if e["ts"][0] == t0]
                if not js:
                    viol("read.subseq", f"{tag}: entry with ts {t0} was never appended since the last clear (or was cleared)", kind="invented", quiescent=True)
                    return
                ids.append(js[0])
            if ids != sorted(ids) or len(set(ids)) != len(ids):
                viol("read.subseq", f"{tag}: sequence read back is not in append order / has duplicates: {ids}", kind="order", quiescent=True)
            missing = [j for j, e in enumerate(A) if e["must"] and j not in ids]
            if missing:
                viol("read.subseq", f"{tag}: appended commands {missing} (texts {[A[j]['inp'][:20] for j in missing]}) that no rule excludes are not readable; read ids {ids} of {len(A)}", kind="lost", quiescent=True)
            for ent, j in zip(seq, ids):
                e = A[j]
                if ent.cmd != want_inp(e):
                    viol("fields.verbatim", f"{tag}: text {ent.cmd!r} != appended {want_inp(e)!r}", field="inp", quiescent=True)
                if ent.rtn != e["rtn"]:
                    viol("fields.verbatim", f"{tag}: rtn {ent.rtn!r} != {e['rtn']!r}", field="rtn", quiescent=True)
                if backend == "json" and list(ent.ts) != list(e["ts"]):
                    viol("fields.verbatim", f"{tag}: ts {ent.ts!r} != {e['ts']!r}", field="ts", quiescent=True)
            if backend == "json":
                self._check_disk_json(fname, h, seq, viol, tag)
            else:
                rows = list(h.items())
                if [r["inp"] for r in rows] != [e.cmd for e in seq]:
                    viol("disk.equals", f"{tag}: sqlite rows {[r['inp'][:12] for r in rows]} != in-memory {[e.cmd[:12] for e in seq]}")

        def quiesce():
            ok = k.wait_quiescent(30.0, include=lambda r: r.kind == "thread")
            if not ok:
                viol("live.flush", f"flusher threads still not finished 30 simulated seconds after the last operation: {[r.name for r in k.alive()]}")
            return ok

        # ---- drive ---------------------------------------------------------------------------
        exc = None
        try:
            for op in case["ops"]:
                kind = op[0]
                if kind == "append":
                    _, tid, u, rtn, spc = op
                    tsn[0] += 1
                    t0 = 2000.0 + tsn[0] * 1.5
                    inp = cmd_text(tid, u)
                    cmd = {"inp": inp, "rtn": rtn, "ts": [t0, t0 + 0.25], "cwd": "/w", "out": f"out{tsn[0]}"}
                    if spc:
                        cmd["spc"] = True
                    probes["appends"] += 1
                    if pending() >= 1 and backend == "json" and len(h.buffer) + 1 >= h.buffersize:
                        probes["flusher_queued_behind_flusher"] += 1
                    h.append(dict(cmd))
                    # model
                    if ign is not None and ign.match(inp):
                        continue
                    if "ignorespace" in hc and spc:
                        continue
                    ent = {"inp": inp, "rtn": rtn, "ts": cmd["ts"], "must": True}
                    if backend == "sqlite":
                        if "ignoredups" in hc and inp.rstrip() == last_sql_inp[0]:
                            continue
                        if "ignoreerr" in hc and rtn != 0:
                            continue
                        last_sql_inp[0] = inp.rstrip()
                    else:
                        if "ignoredups" in hc:
                            # a duplicate of the last STORED command may be dropped: that is the last entry that must
                            # be stored, or any may-be-stored entry after it
                            for prev in reversed(A):
                                if prev["inp"] == inp:
                                    ent["must"] = False
                                    break
                                if prev["must"]:
                                    break
                        if "ignoreerr" in hc and rtn != 0:
                            ent["must"] = False
                    A.append(ent)
                elif kind == "flush":
                    h.flush()
                elif kind == "flush_exit":
                    if backend == "json":
                        h.flush(at_exit=True)
                    else:
                        h.flush()
                elif kind == "clear":
                    if pending():
                        probes["clear_while_flusher_pending"] += 1
                    h.clear()
                    del A[:]
                    last_sql_inp[0] = last_sql_inp[0]
                elif kind == "quiesce":
                    if quiesce():
                        full_check("quiesce")
                else:
                    probes["reads"] += 1
                    if pending():
                        probes["read_while_flusher_pending"] += 1
                    a, b = op[1], op[2]
                    n_hi = len(A)
                    if kind == "len":
                        read_len()
                    elif kind in ("get", "neg", "inps", "rtns", "tss"):
                        n = len(h)
                        if n == 0:
                            continue
                        i = a % n
                        if backend == "json" and i < n - len(h.buffer):
                            probes["file_read"] += 1
                        if kind == "get":
                            ok, ent = guarded("hist", i, lambda: h[i])
                            if ok:
                                check_entry(i, ent.cmd, ent.rtn, ent.ts, "hist")
                        elif kind == "neg":
                            j = -1 - (a % n)
                            ok, val = guarded("inps", (a % n) if (a % n) < must_count() else -1, lambda: h.inps[j])
                            if ok and not any(want_inp(e) == val for e in A):
                                viol("read.subseq", f"inps[{j}] returned {val!r}, never appended since the last clear", kind="invented", pending=pending() > 0)
                        elif kind == "inps":
                            ok, val = guarded("inps", i, lambda: h.inps[i])
                            if ok:
                                check_entry(i, got_inp=val, what="inps")
                        elif kind == "rtns":
                            ok, val = guarded("rtns", i, lambda: h.rtns[i])
                            if ok and not any(e["rtn"] == val for e in A):
                                viol("read.subseq", f"rtns[{i}] returned {val!r}, not the code of any appended command", kind="invented")
                        elif kind == "tss":
                            ok, val = guarded("tss", i, lambda: h.tss[i])
                            if ok:
                                check_entry(i, got_ts=val, what="tss")
                    elif kind == "slice":
                        n = len(h)
                        lo, hi = sorted((a % (n + 1), b % (n + 1)))
                        ok, ents = guarded("hist", None, lambda: h[lo:hi])
                        if ok:
                            prev = -1
                            for off, ent in enumerate(ents):
                                js = [j for j, e in enumerate(A) if e["ts"][0] == (ent.ts[0] if isinstance(ent.ts, (list, tuple)) else ent.ts)]
                                if not js:
                                    viol("read.subseq", f"hist[{lo}:{hi}] element {off} was never appended since the last clear", kind="invented", pending=pending() > 0)
                                    break
                                if js[0] <= prev:
                                    viol("read.subseq", f"hist[{lo}:{hi}] is out of order or repeats an entry", kind="order", pending=pending() > 0)
                                    break
                                prev = js[0]
                    elif kind == "items":
                        ok, its = guarded("items()", None, lambda: list(h.items()))
                        if ok:
                            texts = [want_inp(e).rstrip() for e in A]
                            pos = 0
                            for it in its:
                                try:
                                    pos = texts.index(it["inp"], pos) + 1
                                except ValueError:
                                    viol("read.subseq", f"items() yielded {it['inp']!r} which is not an in-order element of the appended commands", kind="invented_or_order", pending=pending() > 0)
                                    break
                    elif kind == "iter_all":
                        ok, its = guarded("all_items()", None, lambda: list(h.all_items()))
                    del n_hi
            if quiesce():
                full_check("final")
                if backend == "json":
                    h.flush()
                    if quiesce():
                        full_check("final+flush")
                        if len(h.buffer) == 0:
                            self._check_disk_complete(fname, h, viol)
        except BaseException as e:  # noqa: B902
            if isinstance(e, _k.SimExit):
                raise
            exc = traceback.format_exc()[-1800:]
            viol("no.exception", f"history operation raised {type(e).__name__}: {e}\n{exc}", exc=type(e).__name__)
        k.stop()
        res = ctx.base_result()
        res["violations"] = V[:6]
        res["probes"].update(probes)
        res["probes"]["thread_exceptions"] = len(ctx.thread_excs)
        if ctx.thread_excs and not V:
            res["violations"] = [{"clause": "no.thread_exception", "msg": ctx.thread_excs[0], "sig": {"backend": backend}}]
        nthreads = res["stats"]["threads"]
        res["nontrivial"] = len(case["ops"]) >= 3 and (probes["read_while_flusher_pending"] + probes["flusher_queued_behind_flusher"] + probes["clear_while_flusher_pending"] > 0 or k.preempts > 0)
        kinds = tuple(o[0] for o in case["ops"])
        shape = (backend, case["buffersize"], tuple(case["histcontrol"]), kinds[:8])
        res["states"] = [hashlib.sha1(repr(shape).encode()).hexdigest()[:12]]
        res["key"] = hashlib.sha1((repr((backend, case["buffersize"], tuple(case["histcontrol"]), kinds)) + res["digest"]).encode()).hexdigest()[:16]
        res["summary"] = {"backend": backend, "ops": len(case["ops"]), "flushers": nthreads, "appended": probes["appends"]}
        if V:
            o, e = ctx.read_tty()
            res["tty_err_tail"] = e[-800:].decode("utf-8", "replace")
        return res

    # ------------------------------------------------------------------ disk oracles
    def _check_disk_json(self, fname, h, seq, viol, tag):
        import xonsh.lib.lazyjson as xlj

        try:
            with open(fname, encoding="utf-8", newline="\n") as f:
                whole = json.load(f)
        except Exception as e:  # noqa: BLE001
            viol("disk.equals", f"{tag}: history file is not valid JSON: {e}")
            return
        data = whole["data"]
        nfile = len(data["cmds"])
        nbuf = len(h.buffer)
        if nfile + nbuf < len(seq):
            viol("disk.equals", f"{tag}: file holds {nfile} commands + {nbuf} buffered < {len(seq)} readable")
        for i, c in enumerate(data["cmds"][: len(seq)]):
            if i < len(seq) - nbuf and c["inp"] != seq[i].cmd:
                viol("disk.equals", f"{tag}: file command {i} {c['inp']!r} != read back {seq[i].cmd!r}")
                break
        # every node addressed through the lazy index equals the node of an independent parse
        try:
            lj = xlj.LazyJSON(fname)
            cmds = lj["cmds"]
            if len(cmds) != nfile:
                viol("ljson.index", f"{tag}: LazyJSON sees {len(cmds)} commands, json.load sees {nfile}")
            for i in range(min(len(cmds), nfile)):
                node = cmds[i]
                for key in ("inp", "rtn", "ts"):
                    v = node[key]
                    if isinstance(v, xlj.LJNode):
                        v = v.load()
                    if v != data["cmds"][i][key]:
                        viol("ljson.index", f"{tag}: lazy index cmds[{i}][{key!r}] = {v!r} but the file says {data['cmds'][i][key]!r}")
                        return
                if node.load() != data["cmds"][i]:
                    viol("ljson.index", f"{tag}: lazy index cmds[{i}].load() differs from the parsed file")
                    return
        except Exception as e:  # noqa: BLE001
            viol("ljson.index", f"{tag}: reading through the lazy index failed: {type(e).__name__}: {e}")

    def _check_disk_complete(self, fname, h, viol):
        with open(fname, encoding="utf-8", newline="\n") as f:
            whole = json.load(f)
        n = len(whole["data"]["cmds"])
        if n != len(h):
            viol("disk.equals", f"after flush and quiescence the file holds {n} commands but len(history)={len(h)}")


ENGINE = C12()
