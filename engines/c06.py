"""C06 - captured output is complete, ordered and exactly what the command wrote."""

import copy
import hashlib
import json
import re

from simkit import procworld, simproc
from simkit.engine import Engine

from . import pipegen

RE_HIDDEN = "(\001.*?\002)"
RE_VT100 = "(\u009b|\u001b\\[)[0-?]*[ -\\/]*[@-~]"
RE_HIDE = re.compile("(" + RE_HIDDEN + "|" + RE_VT100 + ")")

FORMS = ("$()", "!()", "@$()")
ACCESSORS = ("raw_out", "out", "rtn", "iter", "end", "str")


def decode(b):
    return b.decode("utf-8", "surrogateescape")


def uninew(s):
    return s.replace("\r\n", "\n").replace("\r", "\n")


def strip_esc(s):
    return RE_HIDE.sub("", s)


def one_line_variants(s):
    out = {s}
    if s.endswith("\n") and "\n" not in s[:-1]:
        out.add(s[:-1])
    return out


class C06(Engine):
    property_id = "C06"
    level = "exploration"
    budgets = {
        "quick": {"runs": 5000, "wall": 75, "min_runs": 150, "min_wall": 30},
        "thorough": {"runs": 120000, "wall": 1500, "min_runs": 400},
    }
    rule = (
        "case = capture form x 1-4 stages (SimProc/alias; emit/filter/head/sink roles) x payload class/size x "
        "writer chunking/pauses x knobs (pre-emption p, policy, pipe capacity, $XONSH_PROC_FREQUENCY); run under the "
        "SimKernel. non-trivial = at least 2 helper threads ran and (>=1 pre-emption or >=1 simulated blocking read/write); "
        "distinct = distinct (case shape, schedule digest) pairs"
    )
    state_measure = "distinct (form, stage kinds/roles, payload class, size bucket, first accessor) tuples"
    assumptions = [
        "child processes are SimProc stubs following POSIX pipe/EOF/EPIPE/wait semantics",
        "interleavings at source-line granularity in xonsh/procs/* plus every blocking seam",
        "alias filter stages only receive LF-only UTF-8 text (TextIOWrapper universal newlines would rewrite CR)",
        "$() / @$() may or may not strip terminal escape sequences (statement read as permitted transformations)",
    ]
    components = {
        "real": [
            "xonsh lexer/parser/Execer",
            "built_ins.subproc_captured_*",
            "procs.specs",
            "procs.pipelines",
            "procs.posix.PopenThread",
            "procs.proxies",
            "procs.readers",
            "procs.pipes",
            "procs.jobs",
            "kernel pipes/ptys",
            "CPython io stack",
        ],
        "stub": ["child processes (SimProc)", "scheduler", "clock", "queue.Queue", "threading locks", "waitpid/kill/tcsetpgrp", "terminal"],
    }
    expected_probes = ["pipe_full_backpressure", "reader_blocked", "epipe", "size_over_pipe", "boundary_1024"]

    hot_sites = ()

    def warmup(self):
        procworld.warm()
        if not self.hot_sites:
            self.hot_sites = procworld.profile_sites(self, keep=("readers.py", "posix.py", "pipelines.py", "proxies.py", "pipes.py"))

    # ------------------------------------------------------------------ generation
    def gen_case(self, rng, tier, seed):
        form = rng.choice(FORMS)
        slow = rng.random() < 0.15
        text_only = form == "@$()"
        stages = pipegen.gen_pipeline(rng, max_stages=4, slow=slow, text_only=text_only)
        if form == "@$()":
            for st in stages:
                if "payload" in st and st["payload"]["cls"] not in ("lines", "oneline"):
                    st["payload"]["cls"] = "lines"
                    st["payload"].setdefault("final_nl", True)
                    if st["kind"] in ("proc", "uproc") and st["role"] in ("emit", "sink_emit"):
                        pass
            pipegen.fix_pipeline(stages)
        knobs = {
            "p": rng.choice((0.0, 0.02, 0.1, 0.1, 0.3, 0.5)),
            "policy": rng.choice(("random", "random", "random", "starve", "pct", "rr", "nopreempt")),
            "victim": rng.randrange(1, 9),
            "pct_points": sorted(rng.randrange(1, 3000) for _ in range(rng.choice((1, 2, 3)))),
            "pipe_cap": rng.choice((4096, 4096, 16384, 65536, 65536)),
            "proc_freq": rng.choice((1e-4, 1e-4, 1e-3, 1e-5, 0.01)),
            "clock_seed": rng.randrange(1 << 30),
        }
        if self.hot_sites and rng.random() < 0.5:
            knobs["policy"] = "random"
            knobs["p"] = rng.choice((0.0, 0.02, 0.1))
            knobs["sites"] = procworld.pick_sites(rng, self.hot_sites, rng.choice((2, 4, 8)))
            knobs["hold_len"] = rng.choice((300, 3000, 30000))
        total = sum(s_["payload"]["n"] for s_ in stages if "payload" in s_)
        knobs["max_steps"] = 300_000 + 25 * total
        acc = list(ACCESSORS)
        rng.shuffle(acc)
        return {"seed": seed, "form": form, "stages": stages, "knobs": knobs, "access": acc[:3]}

    def case_valid(self, case):
        return bool(case["stages"])

    def simplify(self, case):
        st = case["stages"]
        # drop a stage
        for i in range(len(st)):
            if len(st) > 1:
                c = copy.deepcopy(case)
                del c["stages"][i]
                pipegen.fix_pipeline(c["stages"])
                yield c
        # simpler schedule knobs
        if case["knobs"]["policy"] != "random":
            c = copy.deepcopy(case)
            c["knobs"]["policy"] = "random"
            yield c
        for p in (0.0, 0.02, 0.1):
            if case["knobs"]["p"] > p:
                c = copy.deepcopy(case)
                c["knobs"]["p"] = p
                yield c
        if case["knobs"]["pipe_cap"] != 65536:
            c = copy.deepcopy(case)
            c["knobs"]["pipe_cap"] = 65536
            yield c
        # smaller payloads
        for i, s in enumerate(st):
            if "payload" in s and s["payload"]["n"] > 8:
                for n in (s["payload"]["n"] // 2, 1025, 100):
                    if n < s["payload"]["n"]:
                        c = copy.deepcopy(case)
                        s2 = c["stages"][i]
                        s2["payload"]["n"] = n
                        if s2["kind"] in ("proc", "uproc"):
                            ln = len(simproc.make_payload(s2["payload"]))
                            pre = [a for a in s2["script"] if a[0] == "readall"]
                            s2["script"] = pre + [["out", 1, s2["payload"], 0, ln, 4096], ["die", -s2["rc"]] if s2["rc"] < 0 else ["exit", s2["rc"]]]
                        yield c
            if "err" in s:
                c = copy.deepcopy(case)
                del c["stages"][i]["err"]
                if c["stages"][i]["kind"] in ("proc", "uproc"):
                    c["stages"][i]["script"] = [a for a in c["stages"][i]["script"] if not (a[0] == "out" and a[1] == 2)]
                yield c
            if s["kind"] in ("proc", "uproc") and any(a[0] == "sleep" for a in s.get("script", ())):
                c = copy.deepcopy(case)
                c["stages"][i]["script"] = [a for a in s["script"] if a[0] != "sleep"]
                yield c
        if len(case["access"]) > 1:
            c = copy.deepcopy(case)
            c["access"] = case["access"][:1]
            yield c

    # ------------------------------------------------------------------ execution
    def run_case(self, case, tape, emit):
        ctx = procworld.RunCtx(case["seed"], case["knobs"], tape, emit)
        XSH = ctx.XSH
        env = XSH.env
        env["XONSH_PROC_FREQUENCY"] = case["knobs"]["proc_freq"]
        env["XONSH_SUBPROC_RAISE_ERROR"] = False
        env["XONSH_SUBPROC_CMD_RAISE_ERROR"] = False
        stages = case["stages"]
        alias_log = []
        pipegen.setup_stages(ctx, stages, alias_log)
        outs = pipegen.model_outputs(stages)
        P = outs[-1]
        last = stages[-1]
        form = case["form"]
        cmdline = " | ".join(pipegen.stage_cmd(s) for s in stages)
        if form == "$()":
            src = f"r = $({cmdline})\n"
        elif form == "!()":
            src = f"r = !({cmdline})\n"
        else:
            recv = []

            def sim_recv(args, stdin=None):
                recv.append(list(args))
                return 0

            sim_recv.__xonsh_threadable__ = False
            XSH.aliases["sim_recv"] = sim_recv
            src = f"sim_recv @$({cmdline})\n"
        V = []
        obs = {}
        err_n = len(simproc.make_payload(last["err"])) if "err" in last else 0
        ctx.partial = {
            "summary": {"src": src.strip(), "len_P": len(P)},
            "abort_sig": {
                "form": form,
                "last_kind": last["kind"],
                "unthreadable_stderr_over_pipe": bool(last["kind"] in ("ualias", "uproc") and form == "!()" and err_n > case["knobs"]["pipe_cap"]),
            },
        }
        ctx.start()
        exc = None
        try:
            g = ctx.exec_src(src)
            r = g.get("r")
            if form == "@$()":
                r = recv[0] if recv else None
            if form == "!()":
                for a in case["access"] + [x for x in ACCESSORS if x not in case["access"]]:
                    if a == "raw_out":
                        obs["raw_out"] = r.raw_out
                    elif a == "out":
                        obs["out"] = r.out
                    elif a == "rtn":
                        obs["rtn"] = r.rtn
                    elif a == "iter":
                        obs["iter"] = "".join(list(r))
                    elif a == "end":
                        r.end()
                    elif a == "str":
                        obs["str"] = str(r)
            else:
                obs["value"] = r
                if form == "$()":
                    lc = XSH.lastcmd
                    obs["rtn"] = lc.rtn if lc is not None else None
        except BaseException as e:  # noqa: B902 - anything escaping the command is an observation
            import traceback

            exc = "".join(traceback.format_exception_only(type(e), e)).strip()
            obs["exc"] = exc
            obs["exc_tb"] = traceback.format_exc()[-1500:]
        quiet = ctx.quiesce(10.0)
        ctx.k.stop()
        tty_o, tty_e = ctx.read_tty()
        # ------------------------------------------------------------------ oracle
        text = decode(P)
        N = strip_esc(uninew(text))
        sig_base = {"form": form, "cls": _final_cls(stages), "last_kind": last["kind"], "nstages": len(stages)}

        def viol(clause, msg, **sig):
            s = dict(sig_base)
            s.update(sig)
            V.append({"clause": clause, "msg": msg, "sig": s})

        if exc is not None:
            viol("no.exception", f"{src.strip()} raised {exc}\n{obs.get('exc_tb', '')}")
        elif form == "!()":
            raw_ok = obs.get("raw_out") == P
            if not raw_ok:
                viol("raw_out.exact", _diff("raw_out", obs.get("raw_out"), P), why=_raw_why(obs.get("raw_out"), P))
            if _final_cls(stages) != "binary":  # text views of arbitrary binary data are not specified
                for key in ("out", "str"):
                    if key in obs and obs[key] not in one_line_variants(N):
                        viol("out.text", _diff(f"!().{key}", obs[key], N), raw_ok=raw_ok, why=_text_why(obs[key], N, P) if raw_ok else "raw_wrong")
                if "iter" in obs and obs["iter"] != N:
                    viol("iter.join", _diff("''.join(iter(r))", obs["iter"], N), raw_ok=raw_ok, why=_text_why(obs["iter"], N, P) if raw_ok else "raw_wrong")
        elif form == "$()":
            acc = set()
            for base in (uninew(text), N):
                acc |= one_line_variants(base)
            if obs.get("value") not in acc:
                viol("stdout.text", _diff("$()", obs.get("value"), N))
        else:
            lexer = XSH.execer.parser.lexer
            accs = []
            for base in (uninew(text), N):
                toks = []
                for line in base.splitlines():
                    toks.extend(lexer.split(line.rstrip("\n")))
                accs.append(toks)
            if obs.get("value") not in accs:
                viol("stdout.text", _diff("@$()", repr(obs.get("value")), repr(accs[-1])))
        if exc is None and form != "@$()":
            want_rc = pipegen.expected_rc(last)
            if obs.get("rtn") != want_rc:
                viol("rtn.is_last", f"return code {obs.get('rtn')!r}, last stage exited with {want_rc!r} ({src.strip()})", got=obs.get("rtn"), want=want_rc)
        # captured data must not be echoed on the terminal
        legit = b"".join(simproc.make_payload(s_["err"]) for s_ in stages if "err" in s_)
        for probe in _markers(P):
            if probe in legit:
                continue
            if probe in tty_o or probe in tty_e:
                viol("no.echo", f"captured payload bytes {probe!r} appeared on the terminal")
                break
        # stderr of the last stage must not be mixed into the capture
        if "err" in last and exc is None:
            em = [m for m in _markers(simproc.make_payload(last["err"])) if m not in P]
            got = obs.get("raw_out") if form == "!()" else str(obs.get("value")).encode("utf-8", "surrogateescape")
            if got is not None and any(m in got for m in em):
                viol("no.stderr_mix", "stderr bytes of the final stage appear in the captured stdout")
        res = ctx.base_result()
        nthreads = res["stats"]["threads"]
        res["violations"] = V
        if V:
            res["tty_err_tail"] = tty_e[-1500:].decode("utf-8", "replace")
        res["probes"]["size_over_pipe"] = int(len(P) > case["knobs"]["pipe_cap"])
        res["probes"]["boundary_1024"] = int(len(P) in (1023, 1024, 1025, 4095, 4096, 4097, 65535, 65536, 65537))
        res["probes"]["helper_threads_left_running"] = int(not quiet)
        res["probes"]["stage_died_by_signal"] = sum(1 for p in simproc.ALL if (p.status or 0) < 0)
        res["faults"] = _fault_counts(case, stages)
        res["nontrivial"] = nthreads >= 2 and (ctx.k.preempts > 0 or res["probes"]["pipe_full_backpressure"] + res["probes"]["reader_blocked"] > 0)
        shape = (form, tuple((s["kind"], s["role"]) for s in stages), _final_cls(stages), _bucket(len(P)), case["access"][0])
        res["states"] = [hashlib.sha1(repr(shape).encode()).hexdigest()[:12]]
        res["key"] = hashlib.sha1((repr(shape) + res["digest"]).encode()).hexdigest()[:16]
        res["summary"] = {"src": src.strip(), "len_P": len(P), "rtn": obs.get("rtn"), "threads": nthreads, "decisions": ctx.k.d}
        return res


def _fault_counts(case, stages):
    f = {}

    def inc(k, n=1):
        if n:
            f[k] = f.get(k, 0) + n

    for st in stages:
        inc("stage_exit_nonzero", int(st["rc"] > 0))
        inc("stage_killed_by_signal", int(st["rc"] < 0))
        inc("consumer_exits_early", int(st["role"] == "head"))
        inc("consumer_ignores_stdin", int(st["role"] == "emit" and st["idx"] > 0))
        for a in st.get("script", ()):
            inc("writer_pause", int(a[0] == "sleep" and a[1] < 0.1))
            inc("writer_stall", int(a[0] == "sleep" and a[1] >= 0.1))
            inc("writer_closes_stdout_early", int(a[0] == "close"))
    inc("small_pipe_capacity", int(case["knobs"]["pipe_cap"] < 65536))
    inc("starved_thread_policy", int(case["knobs"]["policy"] == "starve"))
    inc("pct_priority_policy", int(case["knobs"]["policy"] == "pct"))
    return f


def _final_cls(stages):
    for st in reversed(stages):
        if "payload" in st and st["role"] in ("emit", "sink_emit"):
            return st["payload"]["cls"]
    return None


def _bucket(n):
    for b in (0, 1, 1023, 1024, 1025, 4096, 65536):
        if n <= b:
            return b
    return 1 << 20


def _markers(P):
    if len(P) < 16:
        return []
    out = [P[:16], P[len(P) // 2 : len(P) // 2 + 16], P[-16:]]
    return [m for m in out if len(m) == 16 and len(set(m)) > 3]


def _diff(what, got, want):
    if got is None:
        return f"{what}: got None, expected {len(want)} units"
    if isinstance(got, (bytes, bytearray)) != isinstance(want, (bytes, bytearray)):
        return f"{what}: type {type(got).__name__} vs {type(want).__name__}"
    n = min(len(got), len(want))
    i = next((j for j in range(n) if got[j] != want[j]), n)
    return (
        f"{what}: len got {len(got)} want {len(want)}; first difference at {i}: "
        f"got {got[max(0, i - 20) : i + 30]!r} want {want[max(0, i - 20) : i + 30]!r}"
    )


def _raw_why(got, P):
    if not isinstance(got, (bytes, bytearray)):
        return "type"
    if len(got) > len(P) and _is_dup(got, P):
        return "dup_chunk"
    if len(got) < len(P) and P.startswith(got):
        return "lost_tail"
    return "other"


def _is_dup(got, P):
    """got == P with one contiguous earlier segment repeated."""
    n = min(len(got), len(P))
    i = next((j for j in range(n) if got[j] != P[j]), n)
    extra = len(got) - len(P)
    # got = P[:i] + P[k:i] + P[i:]  for some k < i
    return extra > 0 and got[i + extra :] == P[i:] and got[i : i + extra] == P[i - extra : i]


def _text_why(got, N, P):
    """Classify a wrong text view whose raw bytes were right (signature for known findings)."""
    if not isinstance(got, str):
        return "type"
    if got.endswith("\n") is False and N.endswith("\n") and got + "\n" == N:
        return "dropped_final_newline"
    if "\r" in got and uninew(got) == N:
        return "lone_cr_kept"  # CR inside a line not normalised
    if strip_esc(got) == N:
        return "split_escape"  # escape sequence cut by a read boundary survived
    if re.sub("\n+", "\n", uninew(got)) == re.sub("\n+", "\n", N) and got.count("\n") > N.count("\n"):
        return "split_crlf"  # CR | LF cut by a read boundary became two newlines
    try:
        if got.encode("utf-8", "surrogateescape") == N.encode("utf-8", "surrogateescape"):
            return "split_utf8"  # multi-byte character cut by a read boundary
    except UnicodeError:
        pass
    if "\r" in got and re.sub("\n+", "\n", uninew(got)) == re.sub("\n+", "\n", N):
        return "lone_cr_kept+split_crlf"
    if strip_esc(uninew(got.encode("utf-8", "surrogateescape").decode("utf-8", "surrogateescape"))) == N:
        return "split_mixed"
    return "other"


ENGINE = C06()
_ = json
