"""C08 - command lookup equals a POSIX $PATH search and never goes stale.

A history machine over a real scratch file system: PATH directories (plain, symlinked,
relative, missing, duplicated, empty entry), command-named entries of every kind
(executable, non-executable, directory, symlink to either, dangling symlink), a working
directory holding decoys, and a SIMULATED CLOCK that stamps directory mtimes (granularity
fine / 1 s / 2 s, zero-length steps, backward jumps).  Steps create / delete / rename /
chmod entries, change directory modes, make whole directories vanish and reappear, edit
`$PATH` through the real EnvPath API, change directory, restart the commands cache from
its persisted file (optionally torn / corrupted) and look names up through every view:
`locate_executable`, `SubprocSpec.build().binary_loc`, `CommandsCache.locate_binary`,
`name in commands_cache`, the listing the completer iterates.  The oracle is an execvp
reference evaluated on the detyped `$PATH` children receive, itself cross-checked against
real `execvp` and `/bin/sh -c 'command -v'` on a sample.
"""

import copy
import hashlib
import json
import os
import shutil
import stat
import subprocess
import traceback

from simkit import procworld
from simkit.engine import Engine

NAMES = ("xa", "xb", "xc", "xd")
PDIRS = ("p0", "p1", "p2", "p3", "missing")
KINDS = ("exec", "exec", "exec", "noexec", "dir", "ln_exec", "ln_noexec", "ln_broken", "ln_dir", "mode", "mode")
# permission-class cases: the run child owns its files, so only the OWNER bits decide (0655: others may, the owner may not)
MODES = (0o755, 0o700, 0o500, 0o100, 0o655, 0o645, 0o611, 0o055, 0o011, 0o001, 0o644, 0o000, 0o711)
ENTRY_FORMS = ("@/p0", "@/p1", "@/p2", "@/p3", "@/p1/", "@/lnk", "@/missing", "@/p2/../p2", "rel", "./rel", ".", "", "@/p0/xa", "@/p3", "@/p0")
T0 = 1_700_000_000.0


class C08(Engine):
    property_id = "C08"
    level = "exploration"
    uses_kernel = False
    budgets = {
        "quick": {"runs": 9000, "wall": 80, "min_runs": 300, "min_wall": 30},
        "thorough": {"runs": 300000, "wall": 1500, "min_runs": 600, "min_wall": 90},
    }
    rule = (
        "case = initial layout (4 command names x 5 PATH directories + symlinked directory + relative directory under two working directories, entry kinds exec / non-exec / directory / "
        "symlink to exec / symlink to non-exec / dangling symlink / symlink to directory) x initial $PATH (absolute, trailing slash, symlinked, dotted, relative, '.', empty, missing, file, duplicates; "
        "also unset) x settings ($ENABLE_COMMANDS_CACHE, $COMMANDS_CACHE_SAVE_INTERMEDIATE, mtime granularity fine/1s/2s) x history of 4-40 steps from create / delete / rename / chmod +-x / chmod of a "
        "symlink target / directory mode 000-755 / directory vanishes-reappears / $PATH append-prepend-remove-swap-assign-delete / cd / alias add-remove / re-pointing of the symlinked PATH directory / clock step (0, ms, s, h, backwards) / cache restart "
        "from the persisted file (intact, truncated, garbage) / lookup of a bare name or explicit path through all views. non-trivial = a lookup after >=1 change since the previous lookup of the same name; "
        "distinct = distinct (settings, step kinds, entry kinds, PATH forms) histories"
    )
    state_measure = "distinct (view, outcome found/not-found, kind of the winning entry, position in $PATH, shadowed by non-executable/directory/dangling entry, pending change kinds) tuples"
    assumptions = [
        "the reference is execvp on the detyped $PATH string children receive: entries in order, relative entries against the cwd, the first entry holding a regular file (after symlinks) the uid may execute wins; directories, non-executable files and dangling links are skipped",
        "an empty $PATH entry means the current directory for execvp; xonsh resolving it that way or skipping it are both accepted (the statement's 'never from the current directory' and 'what execvp would choose' disagree there)",
        "with $PATH unset xonsh searches its documented default list while children get the C library default; only names absent from both are looked up, so both agree on 'not found'",
        "paths are compared as (resolved directory, name): xonsh reports the symlink-resolved directory",
        "explicit paths (containing '/') are judged on locate_executable / SubprocSpec only; `in commands_cache` maps a path to its base name for the threadability predictors and is not a command view",
        "the reference itself is cross-checked on a sample against real execvp (subprocess with the detyped environment) and /bin/sh `command -v`; a disagreement is a harness error, not a violation",
        "directory mtimes are stamped from the simulated clock after every change (a chmod of an entry or of a symlink target does not touch the directory mtime, as on a real file system)",
    ]
    components = {
        "real": ["procs.executables locate_executable / locate_file_in_path_env / locate_relative_path / clear_paths / get_paths / is_executable_in_posix", "commands_cache.CommandsCache (update_cache, _update_paths_cache, _iter_binaries, locate_binary, __contains__, iter_commands, cache file load/save)", "procs.specs.SubprocSpec.build -> resolve_binary_loc", "completers.commands.complete_command (sampled)", "environ.Env / EnvPath ($PATH edits, detype)", "real file system, real execvp and /bin/sh for oracle cross-checks, kernel permission checks (uid 65534)"],
        "stub": ["clock: directory mtimes are written with os.utime from the simulated clock", "session restart = a new CommandsCache over the same cache directory"],
    }
    expected_probes = ["lookup_found", "lookup_notfound", "shadow_noexec_skipped", "shadow_dir_skipped", "shadow_broken_skipped", "symlink_entry_wins", "symlinked_pathdir", "relative_pathdir", "empty_entry", "missing_dir_entry", "duplicate_entry", "path_unset", "cwd_decoy_present", "explicit_path", "same_tick_change", "chmod_change", "clock_backwards", "cache_restart", "cache_file_corrupt", "dir_unreadable", "dir_vanished", "oracle_crosscheck_exec", "oracle_crosscheck_sh", "cache_disabled", "symlink_repointed", "permission_class_mode"]

    def warmup(self):
        procworld.warm(extra_traced=())
        import xonsh.commands_cache as cc
        import xonsh.completers.commands as xcc
        import xonsh.procs.executables as ex
        import xonsh.procs.specs as sx

        self.cc, self.ex, self.sx, self.xcc = cc, ex, sx, xcc
        self.scanned = []
        orig = cc.executables_in

        def recording_executables_in(path):
            self.scanned.append(path)
            return orig(path)

        cc.executables_in = recording_executables_in  # observation only: which directories a lookup really re-read

    # ------------------------------------------------------------------ generation
    def _gen_pathlist(self, rng):
        n = rng.choice((0, 1, 2, 2, 3, 3, 4, 5))
        return [rng.choice(ENTRY_FORMS) for _ in range(n)]

    def _gen_op(self, rng):
        r = rng.random()
        d = rng.choice(PDIRS[:4] + ("rel0", "rel1", "cwd0", "cwd1", "missing", "p0", "p1"))
        nm = rng.choice(NAMES)
        if r < 0.30:
            q = rng.random()
            target = rng.choice(NAMES) if q < 0.8 else rng.choice((f"{rng.choice(('p0', 'p1', 'cwd0'))}/{rng.choice(NAMES)}", "./" + nm, "../p1/" + nm, "@/p2/" + nm, "rel/" + nm, "missing/" + nm, "@/lnk/" + nm))
            return {"k": "lookup", "name": target}
        if r < 0.42:
            return {"k": "mk", "dir": d, "name": nm, "kind": rng.choice(KINDS)}
        if r < 0.50:
            return {"k": "rm", "dir": d, "name": nm}
        if r < 0.58:
            return {"k": "chmod", "dir": d, "name": nm, "x": rng.random() < 0.5, "m": rng.randrange(len(MODES)) if rng.random() < 0.4 else None}
        if r < 0.61:
            return {"k": "chmod_target", "name": nm, "x": rng.random() < 0.5}
        if r < 0.64:
            return {"k": "mv", "dir": d, "name": nm, "to": rng.choice(NAMES)}
        if r < 0.67:
            return {"k": "dirmode", "dir": rng.choice(PDIRS[:4]), "mode": rng.choice((0, 0o755, 0o755))}
        if r < 0.70:
            return {"k": "dirgone", "dir": rng.choice(PDIRS), "back": rng.random() < 0.5}
        if r < 0.82:
            q = rng.random()
            e = rng.choice(ENTRY_FORMS)
            if q < 0.25:
                return {"k": "path", "how": "append", "e": e}
            if q < 0.5:
                return {"k": "path", "how": "prepend", "e": e}
            if q < 0.65:
                return {"k": "path", "how": "remove", "i": rng.randrange(6)}
            if q < 0.8:
                return {"k": "path", "how": "swap", "i": rng.randrange(6), "j": rng.randrange(6)}
            if q < 0.96:
                return {"k": "path", "how": "assign", "v": self._gen_pathlist(rng), "as_str": rng.random() < 0.3}
            return {"k": "path", "how": "delete"}
        if r < 0.835:
            return {"k": "relink", "to": rng.choice(("p1", "p2", "p3", "missing"))}
        if r < 0.85:
            return {"k": "cd", "to": rng.choice(("cwd0", "cwd1"))}
        if r < 0.88:
            return {"k": "alias", "name": rng.choice(("zz1", "zz2")), "add": rng.random() < 0.6}
        if r < 0.95:
            return {"k": "tick", "d": rng.choice((0.0, 0.0, 0.001, 0.5, 1.0, 2.5, 3600.0, -5.0))}
        return {"k": "restart", "corrupt": rng.choice((None, None, "trunc", "garbage", "empty"))}

    def gen_case(self, rng, tier, seed):
        layout = []
        for d in PDIRS[:4] + ("rel0", "rel1", "cwd0", "cwd1"):
            for nm in NAMES:
                if rng.random() < 0.3:
                    layout.append({"dir": d, "name": nm, "kind": rng.choice(KINDS)})
        n = rng.choice((4, 6, 10, 16, 25, 40)) if tier == "quick" else rng.choice((6, 12, 25, 40, 60))
        ops = [self._gen_op(rng) for _ in range(n)]
        ops.append({"k": "lookup", "name": rng.choice(NAMES)})
        return {
            "seed": seed,
            "layout": layout,
            "path0": self._gen_pathlist(rng) if rng.random() < 0.95 else None,
            "settings": {
                "ENABLE_COMMANDS_CACHE": rng.random() < 0.75,
                "COMMANDS_CACHE_SAVE_INTERMEDIATE": rng.random() < 0.35,
                "gran": rng.choice((0.0, 0.0, 1.0, 2.0)),
                "autostep": rng.choice((0.0, 0.01, 0.01, 0.3, 1.5)),
            },
            "cwd": rng.choice(("cwd0", "cwd1")),
            "ops": ops,
        }

    def simplify(self, case):
        for i in range(len(case["layout"])):
            c = copy.deepcopy(case)
            del c["layout"][i]
            yield c
        if case["path0"]:
            for i in range(len(case["path0"])):
                c = copy.deepcopy(case)
                del c["path0"][i]
                yield c
        for k, v in (("COMMANDS_CACHE_SAVE_INTERMEDIATE", False), ("gran", 0.0), ("autostep", 0.01)):
            if case["settings"][k] != v:
                c = copy.deepcopy(case)
                c["settings"][k] = v
                yield c

    # ------------------------------------------------------------------ world
    def _p(self, s):
        if isinstance(s, str) and s.startswith("@"):
            return self.R + s[1:]
        return s

    def _dirpath(self, d):
        R = self.R
        if d in ("rel0", "rel1"):
            return f"{R}/cwd{d[-1]}/rel"
        return f"{R}/{d}"

    def _stamp(self, dirpath, entry_change=True, names=(None,)):
        """A change happened in dirpath at the simulated time: advance the clock, stamp the mtime."""
        self.clock += self.autostep
        if not entry_change:
            return
        t = self.clock
        if self.gran:
            t = (t // self.gran) * self.gran
        try:
            old = os.stat(dirpath).st_mtime
            os.utime(dirpath, (t, t))
        except OSError:
            return
        rp = os.path.realpath(dirpath)
        for nm in names:
            self.pending.setdefault(rp, set()).add(("same_tick" if self.scan_mtime.get(rp) == t else "entry", nm))
        if self.scan_mtime.get(rp) == t:
            self.probes["same_tick_change"] += 1

    def _mk(self, dirpath, name, kind):
        p = os.path.join(dirpath, name)
        if os.path.lexists(p) or not os.path.isdir(dirpath):
            return False
        self.serial += 1
        tgt = os.path.join(self.R, "outside", f"t{self.serial}")
        try:
            if kind in ("exec", "noexec", "mode"):
                with open(p, "w") as f:
                    f.write(f"#!/bin/sh\necho ID:{self.serial}\n")
                mode = 0o755 if kind == "exec" else 0o644 if kind == "noexec" else MODES[(self.serial * 7 + len(name)) % len(MODES)]
                os.chmod(p, mode)
                if kind == "mode":
                    self.probes["permission_class_mode"] = self.probes.get("permission_class_mode", 0) + (mode & 0o111 != 0 and not mode & 0o100)
            elif kind == "dir":
                os.mkdir(p)
            elif kind in ("ln_exec", "ln_noexec"):
                with open(tgt, "w") as f:
                    f.write(f"#!/bin/sh\necho ID:{self.serial}\n")
                os.chmod(tgt, 0o755 if kind == "ln_exec" else 0o644)
                os.symlink(tgt, p)
            elif kind == "ln_broken":
                os.symlink(os.path.join(self.R, "outside", "nothing"), p)
            elif kind == "ln_dir":
                os.symlink(os.path.join(self.R, "outside"), p)
        except OSError:
            return False
        return True

    def _build(self, case):
        R = self.R
        os.makedirs(R)
        for d in ("p0", "p1", "p2", "p3", "outside", "cwd0/rel", "cwd1/rel", ".gone", "cache"):
            os.makedirs(f"{R}/{d}")
        os.symlink("p1", f"{R}/lnk")
        for e in case["layout"]:
            self._mk(self._dirpath(e["dir"]), e["name"], e["kind"])
        for root, dirs, _files in os.walk(R):
            for d in dirs:
                p = os.path.join(root, d)
                if not os.path.islink(p):
                    os.utime(p, (T0, T0))

    # ------------------------------------------------------------------ reference (execvp)
    @staticmethod
    def _runnable(p):
        try:
            st = os.stat(p)
        except OSError:
            return False
        return stat.S_ISREG(st.st_mode) and os.access(p, os.X_OK)

    def _ref(self, name, pathstr, empty_is_cwd):
        """-> (dir_as_written, index) of the winner, or None.  Also records why earlier entries lost."""
        if pathstr is None:
            return None
        shadows = set()
        for i, e in enumerate(pathstr.split(":")):
            if e == "":
                if not empty_is_cwd:
                    continue
                e = "."
            p = os.path.join(e, name)
            if self._runnable(p):
                return e, i, shadows
            if os.path.lexists(p):
                shadows.add("dir" if os.path.isdir(p) else "broken" if not os.path.exists(p) else "noexec")
        return None

    @staticmethod
    def _norm(path):
        if path is None:
            return None
        d, b = os.path.split(path)
        return os.path.join(os.path.realpath(d or "."), b)

    # ------------------------------------------------------------------ views
    def _lookup(self, op):
        name = self._p(op["name"])
        env = self.env
        explicit = "/" in name
        det = env.detype()
        pathstr = det.get("PATH")
        V = self._viol
        cwd = os.getcwd()
        if any(os.path.lexists(os.path.join(cwd, n)) for n in NAMES):
            self.probes["cwd_decoy_present"] += 1
        if explicit:
            self.probes["explicit_path"] += 1
            want = {self._norm(os.path.abspath(name))} if self._runnable(name) else {None}
            shadows = set()
            pos = None
        else:
            if pathstr is None:
                self.probes["path_unset"] += 1
                want = {None}
                shadows, pos = set(), None
            else:
                entries = pathstr.split(":")
                self.probes["empty_entry"] += "" in entries
                self.probes["duplicate_entry"] += len(set(entries)) < len(entries)
                self.probes["relative_pathdir"] += any(e and not os.path.isabs(e) for e in entries)
                self.probes["missing_dir_entry"] += any(e and not os.path.isdir(e) for e in entries)
                self.probes["symlinked_pathdir"] += any(e and os.path.isdir(e) and os.path.realpath(e) != os.path.normpath(os.path.abspath(e)) for e in entries)
                r1 = self._ref(name, pathstr, True)
                r2 = self._ref(name, pathstr, False)
                want = {self._norm(os.path.join(r[0], name)) if r else None for r in (r1, r2)}
                shadows = r1[2] if r1 else set()
                pos = r1[1] if r1 else None
                for s in shadows:
                    self.probes[f"shadow_{s}_skipped"] += 1
                if r1 and os.path.islink(os.path.join(r1[0], name)):
                    self.probes["symlink_entry_wins"] += 1
                self._crosscheck(name, det, r1)
        found = None not in want or len(want) > 1
        self.probes["lookup_found" if None not in want else "lookup_notfound"] += 1
        changed = self.changes_since.get(name, 0) if not explicit else 0
        if changed:
            self.nontrivial = True
        self.changes_since[name] = 0
        pend = []
        base = {"explicit": explicit, "cache": bool(self.env.get("ENABLE_COMMANDS_CACHE"))}
        # ---- view 1: the resolver
        try:
            got = self.ex.locate_executable(name)
        except Exception as e:  # noqa: BLE001
            V("resolve.posix", f"locate_executable({name!r}) raised {type(e).__name__}: {e}", **base, exc=type(e).__name__)
            got = "<exc>"
        if got != "<exc>" and self._norm(got) not in want:
            V("resolve.posix" if not explicit else "explicit.only_path", f"locate_executable({name!r}) = {got!r}, execvp on $PATH={pathstr!r} (cwd {cwd}) chooses {sorted(map(str, want))}; shadows skipped: {sorted(shadows)}", **base, got_none=got is None, want_none=None in want)
        # ---- view 2: what a spec would run
        try:
            spec = self.sx.SubprocSpec.build([name])
            bl = spec.binary_loc
            if len(spec.cmd) >= 2 and spec.cmd[0] != name:
                bl = spec.cmd[1]  # a script: xonsh launches its interpreter on the file it located
            spec.close()
        except Exception as e:  # noqa: BLE001
            bl = "<exc>"
            if not (isinstance(e, Exception) and type(e).__name__ in ("XonshError",)):
                V("exec.posix", f"SubprocSpec.build([{name!r}]) raised {type(e).__name__}: {e}\n{traceback.format_exc()[-600:]}", **base, exc=type(e).__name__)
        if bl != "<exc>" and self._norm(bl) not in want:
            V("exec.posix", f"SubprocSpec.build([{name!r}]).binary_loc = {bl!r}, execvp chooses {sorted(map(str, want))} ($PATH={pathstr!r})", **base, got_none=bl is None, want_none=None in want)
        self.states.add(("resolve", found, tuple(sorted(shadows)), min(pos, 3) if pos is not None else None, explicit))
        if explicit:
            self.trace.append(("lookup", op["name"], got and got[len(self.R) :]))
            return
        # ---- cache views
        cc = self.XSH.commands_cache
        del self.scanned[:]
        before_cmds = cc._cmds_cache
        sigc = dict(base)
        try:
            isin = name in cc
            loc = cc.locate_binary(name)
            listing = dict(cc.iter_commands())
        except Exception as e:  # noqa: BLE001
            V("cache.never_raises", f"commands cache lookup of {name!r} raised {type(e).__name__}: {e}\n{traceback.format_exc()[-700:]}", **base, exc=type(e).__name__)
            self.trace.append(("lookup", op["name"], "exc"))
            return
        # bookkeeping: which directories were rescanned, was the merged map rebuilt
        for rp in self.scanned:
            self.pending.pop(rp, None)
            if rp in cc._paths_cache:
                self.scan_mtime[rp] = cc._paths_cache[rp].mtime
        if cc._cmds_cache is not before_cmds:
            self.path_edit_pending = False
        bad = (isin != found and not (len(want) > 1)) or self._norm(loc) not in want
        lp = listing.get(name)
        lpath = lp[0] if lp else None
        bad = bad or self._norm(lpath) not in want
        if bad:
            # a stale view is the recorded mtime-blind finding exactly when the culprit directory was NOT re-read by this
            # lookup although the cache holds a listing of it whose recorded mtime equals the directory's mtime now: mode
            # changes (entry, symlink target, directory), changes stamped with the very mtime of the last scan, a clock that
            # stepped back and forth onto it.  Anything else (mtime differs and still stale, listing wrong right after a
            # re-read, no culprit directory at all) is not covered.
            sigc["cause"], sigc["mtime_blind"] = self._diagnose(name, cc)
            pend = [sigc["cause"]]
        if isin != found and not (len(want) > 1):
            V("cache.contains", f"`{name} in commands_cache` is {isin} but execvp {'finds ' + str(sorted(map(str, want))) if found else 'finds nothing'} ($PATH={pathstr!r}; pending changes: {pend})", **sigc, stale_positive=isin)
        if self._norm(loc) not in want:
            V("cache.locate", f"commands_cache.locate_binary({name!r}) = {loc!r}, execvp chooses {sorted(map(str, want))} ($PATH={pathstr!r}; pending changes: {pend})", **sigc, got_none=loc is None, want_none=None in want)
        lp = listing.get(name)
        lpath = lp[0] if lp else None
        if self._norm(lpath) not in want:
            V("cache.listing", f"the completion listing has {name!r} -> {lpath!r}, execvp chooses {sorted(map(str, want))} ($PATH={pathstr!r}; pending changes: {pend})", **sigc, got_none=lpath is None, want_none=None in want)
        if self.nlook % 5 == 0:
            try:
                from xonsh.parsers.completion_context import CommandContext

                comps = {str(c) for c in self.xcc.complete_command(CommandContext(args=(), arg_index=0, prefix=name))}
                if (name in comps) != (lp is not None):
                    V("cache.listing", f"complete_command('{name}') offers {sorted(comps)} but the listing {'has' if lp else 'lacks'} it", **sigc, completer=True)
            except Exception as e:  # noqa: BLE001
                V("cache.never_raises", f"complete_command raised {type(e).__name__}: {e}", **base, exc=type(e).__name__)
        self.nlook += 1
        self.states.add(("cache", isin, loc is not None, tuple(pend), found))
        self.trace.append(("lookup", op["name"], got and got[len(self.R) :], isin, loc and loc[len(self.R) :], lpath and lpath[len(self.R) :]))

    def _diagnose(self, name, cc):
        """-> (what happened to the directory whose cached listing is wrong since the cache last read it, mtime-blind?)"""
        for rp in reversed(self.ex.get_paths(self.env)):
            ent = cc._paths_cache.get(rp)
            listed = ent is not None and name in ent.cmds
            if listed != self._runnable(os.path.join(rp, name)):
                labels = "+".join(sorted({lab for lab, nm in self.pending.get(rp, ()) if nm in (None, name)}))
                try:
                    same = ent is not None and os.path.getmtime(rp) == ent.mtime
                except OSError:
                    same = False
                blind = same and rp not in self.scanned
                return (labels or ("same_mtime" if blind else "unexplained")), blind
        return "merge", False

    def _crosscheck(self, name, det, r1):
        """Sampled: the reference against the real execvp and the real sh."""
        self.nx += 1
        if self.nx % 7 not in (0, 3):
            return
        want_id = None
        if r1:
            try:
                with open(os.path.join(r1[0], name)) as f:
                    want_id = f.read().split("ID:")[1].strip()
            except Exception:  # noqa: BLE001
                return
        envd = {k: v for k, v in det.items() if k in ("PATH", "HOME")}
        if self.nx % 7 == 0:
            self.probes["oracle_crosscheck_exec"] += 1
            try:
                out = subprocess.run([name], env=envd, capture_output=True, timeout=20).stdout.decode().strip()
                got_id = out.split("ID:")[1] if "ID:" in out else None
            except (FileNotFoundError, PermissionError, NotADirectoryError):
                got_id = None
            except OSError as e:
                got_id = f"<{e}>"
            if got_id != want_id:
                self.oracle_errors.append(f"execvp ran {got_id!r} for {name!r}, reference says {want_id!r} (PATH={envd.get('PATH')!r})")
        else:
            self.probes["oracle_crosscheck_sh"] += 1
            out = subprocess.run(["/bin/sh", "-c", f"command -v {name}"], env=envd, capture_output=True, timeout=20).stdout.decode().strip()
            want = os.path.join(r1[0], name) if r1 else ""
            if os.path.normpath(out) != os.path.normpath(want) if (out and want) else out != want:
                # dash reports the first entry it can stat as executable regular file too; any difference is an oracle problem
                self.oracle_errors.append(f"sh command -v {name!r} = {out!r}, reference says {want!r} (PATH={envd.get('PATH')!r})")

    def _viol(self, clause, msg, **sig):
        self.V.append({"clause": clause, "msg": f"step {self.step}: {msg}", "sig": sig})

    # ------------------------------------------------------------------ run
    def _new_cache(self):
        XSH = self.XSH
        XSH.commands_cache = self.cc.CommandsCache(self.env, XSH.aliases)
        # a restarted cache knows only what its file says: pending changes stay pending
        return XSH.commands_cache

    def _touch_names(self, name=None):
        for n in NAMES if name is None else (name,):
            self.changes_since[n] = self.changes_since.get(n, 0) + 1

    def run_case(self, case, tape, emit):
        scratch = procworld.scratch_for(os.getpid())
        os.makedirs(scratch, exist_ok=True)
        os.chmod(scratch, 0o755)
        try:
            os.chmod(os.path.dirname(scratch), 0o755)
        except OSError:
            pass
        top = os.path.join(scratch, "w")
        os.makedirs(top)
        os.chown(top, 65534, 65534)
        fd2 = os.open(os.path.join(scratch, "stderr"), os.O_WRONLY | os.O_CREAT | os.O_APPEND, 0o666)
        os.dup2(fd2, 2)
        os.dup2(fd2, 1)
        if os.getuid() == 0:
            os.setgroups([])
            os.setgid(65534)
            os.setuid(65534)
        self.R = R = os.path.join(top, "t")
        self.XSH = XSH = procworld._WARM["XSH"]
        self.env = env = XSH.env
        st = case["settings"]
        self.clock = T0
        self.gran = st["gran"]
        self.autostep = st["autostep"]
        self.serial = 0
        self.pending = {}
        self.scan_mtime = {}
        self.path_edit_pending = False
        self.alias_pending = False
        self.changes_since = {}
        self.V = []
        self.oracle_errors = []
        self.probes = {k: 0 for k in self.expected_probes}
        self.faults = {}
        self.states = set()
        self.trace = []
        self.nontrivial = False
        self.nlook = self.nx = 0
        self.step = -1
        self._build(case)
        os.chdir(f"{R}/{case['cwd']}")
        env["PWD"] = os.getcwd()
        env["HOME"] = f"{R}/outside"
        env["XONSH_CACHE_DIR"] = f"{R}/cache"
        env["ENABLE_COMMANDS_CACHE"] = st["ENABLE_COMMANDS_CACHE"]
        env["COMMANDS_CACHE_SAVE_INTERMEDIATE"] = st["COMMANDS_CACHE_SAVE_INTERMEDIATE"]
        self.probes["cache_disabled"] += not st["ENABLE_COMMANDS_CACHE"]
        if case["path0"] is None:
            env.pop("PATH", None)
        else:
            env["PATH"] = [self._p(e) for e in case["path0"]]
        self._new_cache()
        for i, op in enumerate(case["ops"]):
            self.step = i
            k = op["k"]
            try:
                self._step(op, k)
            except Exception:  # noqa: BLE001
                return {"harness_error": f"step {i} {op}: {traceback.format_exc()[-1500:]}"}
            if self.oracle_errors:
                return {"harness_error": "oracle cross-check failed: " + self.oracle_errors[0]}
            if len(self.V) >= 4:
                break
        digest = hashlib.blake2b(repr(self.trace).encode(), digest_size=8).hexdigest()
        seen = set()
        V = []
        for v in self.V:
            key = (v["clause"], repr(sorted(v["sig"].items())))
            if key not in seen:
                seen.add(key)
                V.append(v)
        shape = (tuple(sorted(st.items())), tuple((o["k"], o.get("kind"), o.get("how")) for o in case["ops"]), tuple(case["path0"] or ()))
        return {
            "violations": V[:4],
            "digest": digest,
            "tape": None,
            "stats": {"steps": len(case["ops"]), "lookups": self.nlook, "sim_time": self.clock - T0},
            "faults": self.faults,
            "probes": self.probes,
            "nontrivial": self.nontrivial,
            "states": [hashlib.sha1(repr(s).encode()).hexdigest()[:12] for s in self.states],
            "key": hashlib.sha1(repr(shape).encode()).hexdigest()[:16],
            "summary": {"steps": len(case["ops"]), "lookups": self.nlook},
        }

    def _fault(self, name):
        self.faults[name] = self.faults.get(name, 0) + 1

    def _step(self, op, k):
        env = self.env
        R = self.R
        if k == "lookup":
            self._lookup(op)
            return
        if k == "mk":
            d = self._dirpath(op["dir"])
            if self._mk(d, op["name"], op["kind"]):
                self._stamp(d, names=(op["name"],))
                self._touch_names(op["name"])
            self.trace.append(("mk", op["dir"], op["name"], op["kind"]))
        elif k == "rm":
            d = self._dirpath(op["dir"])
            p = os.path.join(d, op["name"])
            try:
                if os.path.islink(p) or os.path.isfile(p):
                    os.unlink(p)
                elif os.path.isdir(p):
                    os.rmdir(p)
                else:
                    return
            except OSError:
                return
            self._stamp(d, names=(op["name"],))
            self._touch_names(op["name"])
            self.trace.append(("rm", op["dir"], op["name"]))
        elif k == "chmod":
            d = self._dirpath(op["dir"])
            p = os.path.join(d, op["name"])
            try:
                if os.path.isfile(p):
                    os.chmod(p, (0o755 if op["x"] else 0o644) if op.get("m") is None else MODES[op["m"] % len(MODES)])
                else:
                    return
            except OSError:
                return
            self._stamp(d, entry_change=False)
            self.pending.setdefault(os.path.realpath(d), set()).add(("chmod", op["name"]))
            self.probes["chmod_change"] += 1
            self._fault("chmod_without_dir_mtime")
            self._touch_names(op["name"])
            self.trace.append(("chmod", op["dir"], op["name"], op["x"]))
        elif k == "chmod_target":
            # every symlink of that name anywhere: change the mode of what it points to
            for d in PDIRS[:4] + ("rel0", "rel1"):
                p = os.path.join(self._dirpath(d), op["name"])
                if os.path.islink(p) and os.path.isfile(p):
                    try:
                        os.chmod(p, 0o755 if op["x"] else 0o644)
                    except OSError:
                        continue
                    self.pending.setdefault(os.path.realpath(self._dirpath(d)), set()).add(("chmod", op["name"]))
                    self.probes["chmod_change"] += 1
                    self._fault("chmod_of_symlink_target")
                    self._touch_names(op["name"])
            self.clock += self.autostep
            self.trace.append(("chmod_target", op["name"], op["x"]))
        elif k == "mv":
            d = self._dirpath(op["dir"])
            a, b = os.path.join(d, op["name"]), os.path.join(d, op["to"])
            if os.path.lexists(a) and not os.path.lexists(b):
                try:
                    os.rename(a, b)
                except OSError:
                    return
                self._stamp(d, names=(op["name"], op["to"]))
                self._touch_names(op["name"])
                self._touch_names(op["to"])
            self.trace.append(("mv", op["dir"], op["name"], op["to"]))
        elif k == "dirmode":
            d = self._dirpath(op["dir"])
            if os.path.isdir(d):
                os.chmod(d, op["mode"])
                if op["mode"] == 0:
                    self.probes["dir_unreadable"] += 1
                    self._fault("dir_mode_000")
                self.pending.setdefault(os.path.realpath(d), set()).add(("dirmode", None))
                self.clock += self.autostep
                self._touch_names()
            self.trace.append(("dirmode", op["dir"], op["mode"]))
        elif k == "dirgone":
            d = self._dirpath(op["dir"])
            g = f"{R}/.gone/{op['dir']}"
            if op["back"] or op["dir"] == "missing":
                if os.path.isdir(g) and not os.path.lexists(d):
                    os.rename(g, d)
                elif op["dir"] == "missing" and not os.path.lexists(d):
                    os.mkdir(d)
                    self._mk(d, "xa", "exec")
                else:
                    return
                self._stamp(d)
            else:
                if os.path.isdir(d) and not os.path.lexists(g) and os.access(d, os.W_OK):
                    os.rename(d, g)
                    self.probes["dir_vanished"] += 1
                    self._fault("dir_vanished")
                    self.pending.setdefault(os.path.realpath(d), set()).add(("dirgone", None))
                else:
                    return
            self.clock += self.autostep
            self._touch_names()
            self.trace.append(("dirgone", op["dir"], op["back"]))
        elif k == "path":
            how = op["how"]
            cur = env.get("PATH") if "PATH" in env else None
            if not hasattr(cur, "append"):
                cur = None  # unset: env.get() hands out the documented default tuple
            if how == "delete":
                env.pop("PATH", None)
            elif how == "assign":
                v = [self._p(e) for e in op["v"]]
                env["PATH"] = ":".join(v) if op["as_str"] else v
            elif cur is None:
                env["PATH"] = [self._p(op.get("e", "@/p0"))]
            elif how == "append":
                env["PATH"].append(self._p(op["e"]))
            elif how == "prepend":
                env["PATH"].insert(0, self._p(op["e"]))
            elif how == "remove":
                if len(cur):
                    del env["PATH"][op["i"] % len(cur)]
            elif how == "swap":
                if len(cur) >= 2:
                    i, j = op["i"] % len(cur), op["j"] % len(cur)
                    lst = list(cur)
                    lst[i], lst[j] = lst[j], lst[i]
                    env["PATH"] = lst
            self.path_edit_pending = True
            self._touch_names()
            self.trace.append(("path", how, env.detype().get("PATH", "<unset>").replace(R, "@")))
        elif k == "relink":
            # the symlinked PATH directory is re-pointed (a `current -> v2` style switch)
            os.unlink(f"{R}/lnk")
            os.symlink(op["to"], f"{R}/lnk")
            self.clock += self.autostep
            self.probes["symlink_repointed"] = self.probes.get("symlink_repointed", 0) + 1
            self._fault("pathdir_symlink_repointed")
            self._touch_names()
            self.trace.append(("relink", op["to"]))
        elif k == "cd":
            os.chdir(f"{R}/{op['to']}")
            env["PWD"] = os.getcwd()
            self.path_edit_pending = True  # relative entries now mean other directories
            self._touch_names()
            self.trace.append(("cd", op["to"]))
        elif k == "alias":
            al = self.XSH.aliases
            if op["add"]:
                al[op["name"]] = ["echo", "hi"]
            elif op["name"] in al:
                del al[op["name"]]
            self.trace.append(("alias", op["name"], op["add"]))
        elif k == "tick":
            self.clock += op["d"]
            if op["d"] < 0:
                self.probes["clock_backwards"] += 1
                self._fault("clock_stepped_back")
            self.trace.append(("tick", op["d"]))
        elif k == "restart":
            self.probes["cache_restart"] += 1
            self._fault("session_restart")
            f = f"{R}/cache/path-commands-cache.json"
            if op["corrupt"] and os.path.isfile(f):
                data = open(f, "rb").read()
                with open(f, "wb") as fp:
                    fp.write({"trunc": data[: len(data) // 2], "garbage": b"\x00\xff{not json", "empty": b""}[op["corrupt"]])
                self.probes["cache_file_corrupt"] += 1
                self._fault("cache_file_" + op["corrupt"])
            self._new_cache()
            self.trace.append(("restart", op["corrupt"]))

    def extra_coverage(self, agg):
        return {"steps": int(agg["stats"].get("steps", 0)), "lookups": int(agg["stats"].get("lookups", 0))}

    def cleanup_run(self, pid):
        d = procworld.scratch_for(pid)
        # directories left at mode 000 by the run
        for root, dirs, _files in os.walk(d):
            for x in dirs:
                p = os.path.join(root, x)
                try:
                    if not os.path.islink(p):
                        os.chmod(p, 0o755)
                except OSError:
                    pass
        shutil.rmtree(d, ignore_errors=True)


ENGINE = C08()
