"""C14 - history garbage collection only ever discards the oldest, unlocked history.

A data directory with closed sessions (command counts incl. 0, sizes, close times incl. ties,
lock flags, stale locks from before a reboot, corrupt/empty members) and 0-2 live sessions
that append and flush on simulator threads while the real GC thread runs under the SimKernel;
limits in all four units incl. 0, exact-fit and off-by-one values; force on/off.
"""

import copy
import hashlib
import json
import os
import sqlite3
import traceback

from simkit import kernel as _k
from simkit import procworld
from simkit.engine import Engine

UNITS = ("commands", "files", "s", "b")


class _Uptime:
    def __init__(self, boot):
        self.boot = boot

    def boottime(self):
        return self.boot


class C14(Engine):
    property_id = "C14"
    level = "exploration"
    budgets = {
        "quick": {"runs": 12000, "wall": 80, "min_runs": 200, "min_wall": 30},
        "thorough": {"runs": 200000, "wall": 1500, "min_runs": 500, "min_wall": 90},
    }
    rule = (
        "case = backend (json|sqlite) x collection of 0-8 closed session files (command counts incl. 0, payload sizes, close times incl. ties, lock flags, stale "
        "locks older than boot, corrupt / empty members) x 0-2 live sessions appending and flushing concurrently x limit (value from boundary set computed from "
        "the collection: 0, 1, exact fit, fit-1, fit+1, total, huge; unit commands/files/s/b) x force x schedule knobs. non-trivial = >=2 candidate files and a "
        "limit strictly between 0 and the total; distinct = distinct (collection shape, unit, boundary class, force, live count, schedule digest)"
    )
    state_measure = "distinct (unit, boundary class of the limit, number of files, locks, corrupt members, force, live sessions)"
    assumptions = [
        "age order is by close time (start time for never-closed files); files with equal times may be taken in either order",
        "the refuse rule is judged only where the statement is unambiguous: discarded amount > limit must refuse unless forced; discarded <= kept must run",
        "with live sessions only the safety clauses are judged (never a locked/live file, oldest-first among untouched files, no exception, live files stay complete)",
        "a lock older than the simulated boot time is stale (session not live)",
    ]
    components = {
        "real": ["history.json JsonHistoryGC (files(), run(), per-unit selection)", "JsonHistory.run_gc / flush / append (live sessions)", "lib.lazyjson", "history.sqlite SqliteHistoryGC / _xh_sqlite_delete_records", "tools.to_history_tuple", "real files, sqlite3"],
        "stub": ["scheduler", "clock", "boot time"],
    }
    expected_probes = ["limit_zero", "limit_exact_fit", "limit_off_by_one", "stale_lock_unlocked", "live_session_concurrent", "corrupt_member", "refuse_expected", "noop_in_limit", "tie_in_age", "live_session_cleared"]

    def warmup(self):
        procworld.warm(extra_traced=("xonsh.history.json",))
        import xonsh.history.json as hj
        import xonsh.history.sqlite as hs

        _k.rebind_module_names(hj, threading=_k.SIM_THREADING, time=_k.SIM_TIME)
        _k.rebind_module_names(hs, time=_k.SIM_TIME)
        self.hj, self.hs = hj, hs

    # ------------------------------------------------------------------ generation
    def gen_case(self, rng, tier, seed):
        backend = "json" if rng.random() < 0.8 else "sqlite"
        n = rng.randint(0, 8)
        files = []
        t = 1000.0
        for i in range(n):
            t += rng.choice((0.0, 5.0, 60.0, 3600.0)) if i else 0.0
            corrupt = rng.choice((None,) * 10 + ("trunc", "empty", "garbage"))
            files.append(
                {
                    "sid": f"f{i}",
                    "ncmds": rng.choice((0, 1, 2, 3, 5, 9)),
                    "pad": rng.choice((5, 60, 400)),
                    "ts0": t - 50.0,
                    "close": t if rng.random() < 0.85 else None,
                    "locked": rng.random() < 0.2,
                    "corrupt": corrupt,
                }
            )
        boot = rng.choice((0.0, 0.0, 900.0, t + 1, t - 100))
        unit = rng.choice(UNITS) if backend == "json" else "commands"
        live = rng.choices((0, 1, 2), (6, 3, 1))[0] if backend == "json" else 0
        knobs = {
            "p": rng.choice((0.0, 0.02, 0.1, 0.3)) if live else rng.choice((0.0, 0.02)),
            "policy": rng.choice(("random", "random", "starve", "pct", "nopreempt")),
            "victim": rng.randrange(1, 5),
            "pct_points": sorted(rng.randrange(1, 3000) for _ in range(rng.choice((1, 2)))),
            "clock_seed": rng.randrange(1 << 30),
            "max_steps": 600000,
        }
        return {
            "seed": seed,
            "backend": backend,
            "files": files,
            "boot": boot,
            "unit": unit,
            "limit_class": rng.choice(("zero", "one", "fit", "fit-1", "fit+1", "total", "total-1", "huge", "half")),
            "force": rng.random() < 0.4,
            "size_as": rng.choice(("tuple", "str")),
            "live": live,
            "live_ops": [[rng.choice(("append", "append", "append", "flush", "flush", "clear")) for _ in range(rng.randint(1, 6))] for _ in range(live)],
            "live_cleared_before": [rng.random() < 0.2 for _ in range(live)],  # the live session ran `history clear` before the GC starts
            "now_after": rng.choice((10.0, 100.0, 5000.0)),
            "knobs": knobs,
        }

    def simplify(self, case):
        for i in range(len(case["files"])):
            c = copy.deepcopy(case)
            del c["files"][i]
            yield c
        if case["live"]:
            c = copy.deepcopy(case)
            c["live"] = 0
            c["live_ops"] = []
            yield c
        for i, f in enumerate(case["files"]):
            if f["corrupt"] or f["locked"]:
                c = copy.deepcopy(case)
                c["files"][i]["corrupt"] = None
                c["files"][i]["locked"] = False
                yield c

    # ------------------------------------------------------------------ world
    def _cmds(self, f):
        B = _k.TIME_BASE
        return [{"inp": f"c{f['sid']}_{i} " + "x" * f["pad"] + "\n", "rtn": 0, "ts": [B + f["ts0"] + i * 0.01, B + f["ts0"] + i * 0.01 + 0.005]} for i in range(f["ncmds"])]

    def _build_json(self, case, d):
        import xonsh.lib.lazyjson as xlj

        info = {}
        for f in case["files"]:
            path = os.path.join(d, f"xonsh-{f['sid']}.json")
            B = _k.TIME_BASE
            doc = {"cmds": self._cmds(f), "sessionid": f["sid"], "ts": [B + f["ts0"], None if f["close"] is None else B + f["close"]], "locked": bool(f["locked"])}
            with open(path, "w", newline="\n", encoding="utf-8") as fp:
                xlj.ljdump(doc, fp, sort_keys=True)
            if f["corrupt"] == "trunc":
                sz = os.path.getsize(path)
                with open(path, "r+b") as fp:
                    fp.truncate(sz // 2)
            elif f["corrupt"] == "empty":
                open(path, "w").close()
            elif f["corrupt"] == "garbage":
                with open(path, "w") as fp:
                    fp.write("this is not a history file\n" * 3)
            mt = _k.TIME_BASE + (f["close"] or f["ts0"])
            os.utime(path, (mt, mt))
            info[path] = dict(f, size=os.path.getsize(path), path=path)
        return info

    # ------------------------------------------------------------------ model
    def _limit(self, case, cands, unit, now):
        """Concrete limit value for the boundary class, from the candidate collection."""
        amounts = {"commands": [c["ncmds"] for c in cands], "files": [1 for _ in cands], "b": [c["size"] for c in cands], "s": [now - c["age_key"] for c in cands]}[unit]
        total = sum(amounts) if unit != "s" else (max(amounts) + 1 if amounts else 10)
        newest_two = sum(amounts[-2:]) if unit != "s" else (sorted(amounts)[1] if len(amounts) > 1 else 5)
        lc = case["limit_class"]
        v = {"zero": 0, "one": 1, "fit": newest_two, "fit-1": max(newest_two - 1, 0), "fit+1": newest_two + 1, "total": total, "total-1": max(total - 1, 0), "huge": 10**9, "half": total // 2}[lc]
        if unit in ("commands", "files"):
            v = int(v)
        return v

    def _expect(self, cands, unit, limit, now):
        """Set(s) of acceptable removed-file sets (ties / empties give alternatives).  cands sorted oldest first."""
        n = len(cands)
        keep = 0
        if unit == "commands":
            acc = 0
            for c in reversed(cands):
                if acc + c["ncmds"] > limit:
                    break
                acc += c["ncmds"]
                keep += 1
        elif unit == "b":
            acc = 0
            for c in reversed(cands):
                if acc + c["size"] > limit:
                    break
                acc += c["size"]
                keep += 1
        elif unit == "files":
            keep = min(n, int(limit))
        else:
            keep = sum(1 for c in cands if (now - c["age_key"]) < limit)
            # strictly oldest-first: stop at the first file that is young enough
            k2 = 0
            for c in cands:
                if (now - c["age_key"]) < limit:
                    break
                k2 += 1
            keep = n - k2
        removed = cands[: n - keep]
        kept = cands[n - keep :]
        amount = {"commands": lambda cs: sum(c["ncmds"] for c in cs), "files": len, "b": lambda cs: sum(c["size"] for c in cs), "s": lambda cs: (now - limit - cs[0]["age_key"]) if cs else 0}[unit]
        return removed, kept, amount(removed), amount(kept) if unit != "s" else None

    # ------------------------------------------------------------------ run
    def run_case(self, case, tape, emit):
        ctx = procworld.RunCtx(case["seed"], case["knobs"], tape, emit)
        XSH = ctx.XSH
        hj, hs = self.hj, self.hs
        env = XSH.env
        env["XONSH_DATA_DIR"] = ctx.dir
        env["HISTCONTROL"] = set()
        env["XONSH_STORE_STDOUT"] = False
        env["XONSH_DEBUG"] = 0
        hj.uptime = _Uptime(_k.TIME_BASE + case["boot"])
        V = []
        probes = {k: 0 for k in self.expected_probes}
        unit = case["unit"]

        def viol(clause, msg, **sig):
            s = {"unit": unit, "limit_class": case["limit_class"], "force": case["force"], "live": case["live"]}
            s.update(sig)
            V.append({"clause": clause, "msg": msg, "sig": s})

        ctx.partial = {"summary": {"unit": unit}, "abort_sig": {"where": "gc"}}
        ctx.start()
        k = ctx.k
        k.now = max(f["close"] or f["ts0"] for f in case["files"]) + case["now_after"] if case["files"] else 2000.0
        now = k.now
        k.max_time = now + 900.0
        try:
            if case["backend"] == "json":
                self._run_json(case, ctx, hj, viol, probes, now)
            else:
                self._run_sqlite(case, ctx, hs, viol, probes)
        except BaseException as e:  # noqa: B902
            if isinstance(e, _k.SimExit):
                raise
            viol("gc.corrupt_tolerated", f"garbage collection raised {type(e).__name__}: {e}\n{traceback.format_exc()[-1200:]}", exc=type(e).__name__)
        k.stop()
        res = ctx.base_result()
        if ctx.thread_excs and not V:
            viol("gc.corrupt_tolerated", "exception in the GC / flusher thread:\n" + ctx.thread_excs[0], exc="thread")
        res["violations"] = V[:4]
        res["probes"].update(probes)
        res["faults"] = {"corrupt_member": probes["corrupt_member"], "stale_lock_after_reboot": probes["stale_lock_unlocked"], "concurrent_live_session": probes["live_session_concurrent"]}
        ncand = sum(1 for f in case["files"] if not f["corrupt"])
        res["nontrivial"] = ncand >= 2 and case["limit_class"] not in ("huge",)
        shape = (case["backend"], unit, case["limit_class"], len(case["files"]), sum(f["locked"] for f in case["files"]), sum(1 for f in case["files"] if f["corrupt"]), case["force"], case["live"])
        res["states"] = [hashlib.sha1(repr(shape).encode()).hexdigest()[:12]]
        res["key"] = hashlib.sha1((repr(shape) + repr([(f["ncmds"], f["close"]) for f in case["files"]]) + res["digest"]).encode()).hexdigest()[:16]
        res["summary"] = {"backend": case["backend"], "unit": unit, "limit_class": case["limit_class"], "files": len(case["files"])}
        if V:
            o, e = ctx.read_tty()
            res["tty_err_tail"] = (o[-400:] + e[-400:]).decode("utf-8", "replace")
        return res

    def _run_json(self, case, ctx, hj, viol, probes, now):
        import threading

        d = os.path.join(ctx.dir, "history_json")
        os.makedirs(d)
        info = self._build_json(case, d)
        boot = case["boot"] = min(case["boot"], now - 5.0)  # (a live session cannot have started before the last boot)
        hj.uptime = _Uptime(_k.TIME_BASE + boot)
        # the session that runs the GC (its own file is locked and brand new)
        me = hj.JsonHistory(filename=os.path.join(d, "xonsh-me.json"), sessionid="me", buffersize=100, gc=False, ts=[_k.TIME_BASE + now, None], locked=True)
        ctx.XSH.history = me
        lives = []
        for li in range(case["live"]):
            lh = hj.JsonHistory(filename=os.path.join(d, f"xonsh-live{li}.json"), sessionid=f"live{li}", buffersize=2, gc=False, ts=[_k.TIME_BASE + now - 1, None], locked=True)
            if case.get("live_cleared_before", [False] * (li + 1))[li]:
                lh.clear()
                probes["live_session_cleared"] = probes.get("live_session_cleared", 0) + 1
            lives.append(lh)
        before = set(os.listdir(d))
        # candidates per the statement
        cands = []
        empties = []
        stale = 0
        for path, f in info.items():
            if f["corrupt"]:
                probes["corrupt_member"] += 1
                if f["corrupt"] == "empty":
                    # an empty file holds no history and no lock: collecting it is allowed, not required
                    empties.append(dict(f, ncmds=0, size=0, age_key=(f["close"] or f["ts0"])))
                continue
            if f["locked"]:
                if f["ts0"] < boot:
                    stale += 1
                else:
                    continue
            cands.append(dict(f, age_key=(f["close"] or f["ts0"])))
        probes["stale_lock_unlocked"] += stale
        cands.sort(key=lambda c: c["age_key"])
        ties = len({c["age_key"] for c in cands}) < len(cands)
        probes["tie_in_age"] += int(ties)
        unit = case["unit"]
        limit = self._limit(case, cands, unit, now)
        probes["limit_zero"] += int(limit == 0)
        probes["limit_exact_fit"] += int(case["limit_class"] in ("fit", "total"))
        probes["limit_off_by_one"] += int(case["limit_class"] in ("fit-1", "fit+1", "total-1"))
        size = (limit, unit) if case["size_as"] == "tuple" else f"{limit} {unit}"
        # live sessions work concurrently
        appended = {li: [] for li in range(case["live"])}
        threads = []
        for li, lh in enumerate(lives):
            probes["live_session_concurrent"] += 1

            def work(li=li, lh=lh):
                n = 0
                for op in case["live_ops"][li]:
                    if op == "append":
                        n += 1
                        c = {"inp": f"live{li} cmd {n}\n", "rtn": 0, "ts": [_k.TIME_BASE + now + n, _k.TIME_BASE + now + n + 0.5]}
                        appended[li].append(c["inp"])
                        lh.append(c)
                    elif op == "clear":
                        lh.clear()
                        del appended[li][:]
                        probes["live_session_cleared"] = probes.get("live_session_cleared", 0) + 1
                    else:
                        lh.flush()
                lh.flush()

            th = threading.Thread(target=work)
            threads.append(th)
            th.start()
        me.run_gc(size=size, blocking=True, force=case["force"])
        ctx.k.wait_quiescent(60.0, include=lambda r: r.kind == "thread")
        after = set(os.listdir(d))
        removed_paths = {os.path.join(d, n) for n in before - after}
        new_files = {n for n in after - before if not n.endswith(".tmp")}
        if new_files:
            viol("gc.only_removes", f"garbage collection created files {sorted(new_files)}")
        # ---- safety clauses (always)
        for p in sorted(removed_paths):
            base = os.path.basename(p)
            if base.startswith(("xonsh-me", "xonsh-live")):
                viol("gc.never_live", f"GC removed the file of a live session: {base}")
                return
            f = info.get(p)
            if f is None:
                continue
            if f["locked"] and not f["corrupt"] and not f["ts0"] < boot:
                viol("gc.never_locked", f"GC removed {base}, which is locked by a session started after boot (limit {limit} {unit}, force={case['force']})")
                return
            if f["corrupt"] in ("trunc", "garbage"):
                viol("gc.corrupt_tolerated", f"GC removed the unreadable file {base} as if it were a candidate", kind="removed_corrupt")
                return
        for li, lh in enumerate(lives):
            try:
                with open(lh.filename, encoding="utf-8") as fp:
                    doc = json.load(fp)
                got = [c["inp"] for c in doc["data"]["cmds"]]
            except Exception as e:  # noqa: BLE001
                viol("gc.never_live", f"the file of live session {li} is unreadable after GC ran concurrently: {e}")
                return
            if got != appended[li]:
                viol("gc.never_live", f"live session {li} flushed {appended[li]} but its file holds {got} after GC ran concurrently")
                return
        removed_paths = {p for p in removed_paths if p not in {e["path"] for e in empties}} if False else removed_paths
        removed = [c for c in cands if c["path"] in removed_paths]
        # oldest first: the removed candidates form a prefix in age order (ties may be permuted)
        if removed:
            newest_removed = max(c["age_key"] for c in removed)
            older_kept = [c for c in cands if c["path"] not in removed_paths and c["age_key"] < newest_removed]
            if older_kept:
                viol("gc.oldest_first", f"GC removed {[os.path.basename(c['path']) for c in removed]} but kept the older {[os.path.basename(c['path']) for c in older_kept]} (limit {limit} {unit}); ages {[(os.path.basename(c['path']), c['age_key']) for c in cands]}")
                return
        if case["live"]:
            return
        # ---- exact clauses (quiescent configuration)
        # two readings: empty files count as (oldest-first) candidates, or they do not exist for GC
        variants = [cands]
        if empties:
            variants.append(sorted(cands + empties, key=lambda c: c["age_key"]))
        verdicts = []
        for var in variants:
            verdicts.append(self._judge_exact(case, var, unit, limit, now, removed_paths, probes if var is cands else None))
        if any(v is None for v in verdicts):
            return
        clause, msg, sig = verdicts[0]
        viol(clause, msg, **sig)

    def _judge_exact(self, case, cands, unit, limit, now, removed_paths, probes):
        """None if what GC removed is acceptable for this candidate reading, else (clause, msg, sig)."""
        ties = len({c["age_key"] for c in cands}) < len(cands)
        removed = [c for c in cands if c["path"] in removed_paths]
        exp_removed, exp_kept, amt_removed, amt_kept = self._expect(cands, unit, limit, now)
        refuse_must = (not case["force"]) and bool(exp_removed) and unit != "s" and amt_removed > limit
        run_must = case["force"] or not exp_removed or (unit != "s" and amt_kept is not None and amt_removed <= amt_kept and amt_removed < limit)
        if probes is not None:
            probes["refuse_expected"] += int(refuse_must)
            probes["noop_in_limit"] += int(not exp_removed)
        names = lambda cs: [os.path.basename(c["path"]) for c in cs]  # noqa: E731
        if not exp_removed and removed:
            return ("gc.noop_in_limit", f"the history already fits {limit} {unit} but GC removed {names(removed)}; candidates oldest first {[(os.path.basename(c['path']), c['ncmds'], c['size'], c['age_key']) for c in cands]}", {})
        # the refuse rule is judged on what was actually removed (independent of how ties were ordered)
        if removed and not case["force"] and unit != "s":
            actual = {"commands": sum(c["ncmds"] for c in removed), "files": len(removed), "b": sum(c["size"] for c in removed)}[unit]
            if actual > limit:
                return ("gc.refuse_unless_forced", f"GC (not forced) discarded {actual} {unit} with a limit of {limit}: more than it can keep; removed {names(removed)}", {})
        if refuse_must and not ties:
            return None if not removed else ("gc.refuse_unless_forced", f"GC (not forced) removed {names(removed)} although discarding {amt_removed} {unit} exceeds the limit {limit}", {})
        if not run_must:
            # between "discards no more than it keeps" and "discards more than the limit": running and refusing are both acceptable,
            # but if it runs it must remove exactly the expected prefix
            if not removed:
                return None
        if ties:
            return None
        want = {c["path"] for c in exp_removed}
        got = {c["path"] for c in removed}
        if got == want:
            return None
        clause = "gc.limit_enforced" if want - got else "gc.maximal_keep"
        return (
            clause,
            f"limit {limit} {unit} (class {case['limit_class']}, force={case['force']}): GC removed {sorted(os.path.basename(p) for p in got)} but the largest newest set that fits keeps "
            f"{names(exp_kept)} and removes {sorted(os.path.basename(p) for p in want)}; candidates oldest first {[(os.path.basename(c['path']), c['ncmds'], c['size'], c['age_key']) for c in cands]} now={now}",
            {"removed_too_few": bool(want - got), "removed_too_many": bool(got - want), "limit_is_zero": limit == 0},
        )

    def _run_sqlite(self, case, ctx, hs, viol, probes):
        h = hs.SqliteHistory(gc=False, filename=None, sessionid="me")
        path = h.filename
        ctx.XSH.history = h
        rows = []
        pairs = [(f, c) for f in case["files"] for c in self._cmds(f)]
        if case["seed"] % 5 < 2:
            # several shells share the database and a command is written when it FINISHES: rows are not inserted in the
            # order the commands started ("newest" is by start time, not by insertion)
            import random as _random

            _random.Random(case["seed"]).shuffle(pairs)
            probes["sqlite_rows_written_out_of_time_order"] = probes.get("sqlite_rows_written_out_of_time_order", 0) + 1
        for f, c in pairs:
            rows.append((c["inp"].rstrip(), c["ts"][0]))
            hs.xh_sqlite_append_history(c, f["sid"], store_stdout=False, filename=path)
        rows.sort(key=lambda r: r[1])
        total = len(rows)
        lc = case["limit_class"]
        limit = {"zero": 0, "one": 1, "fit": min(2, total), "fit-1": max(min(2, total) - 1, 0), "fit+1": min(2, total) + 1, "total": total, "total-1": max(total - 1, 0), "huge": 10**9, "half": total // 2}[lc]
        probes["limit_zero"] += int(limit == 0)
        probes["limit_exact_fit"] += int(lc in ("fit", "total"))
        probes["limit_off_by_one"] += int(lc in ("fit-1", "fit+1", "total-1"))
        size = (limit, "commands") if case["size_as"] == "tuple" else f"{limit} commands"
        h.run_gc(size=size, blocking=True)
        ctx.k.wait_quiescent(60.0, include=lambda r: r.kind == "thread")
        conn = sqlite3.connect(path)
        try:
            try:
                left = conn.execute("SELECT inp, tsb FROM xonsh_history ORDER BY tsb").fetchall()
            except sqlite3.OperationalError:
                left = []  # nothing was ever appended: no table
        finally:
            conn.close()
        want = rows[total - min(limit, total) :] if limit > 0 else []
        tsb_ties = len({r[1] for r in rows}) < len(rows)
        if [r[0] for r in left] != [r[0] for r in want] and not tsb_ties:
            viol(
                "sqlite.keep_newest_n",
                f"limit {limit} commands over {total} rows: the table keeps {len(left)} rows (newest kept ts {[r[1] for r in left][:3]}...), expected the newest {len(want)}",
                kept_too_many=len(left) > len(want),
                limit_is_zero=limit == 0,
            )


ENGINE = C14()
