"""Pipeline stage generator + dataflow model shared by the proc engines (C05/C06/C07/C09).

A *stage* is a JSON dict.  Roles:
  emit       ignores stdin, writes its payload (stdout) and optional stderr payload
  filter     copies stdin to stdout through transform T until EOF
  head       copies the first K bytes of stdin to stdout, then exits
  sink_emit  reads stdin to EOF, discards it, then writes its own payload
Kinds: 'proc' (SimProc, threadable stub), 'uproc' (SimProc, unthreadable stub),
       'alias' (threaded callable alias), 'ualias' (unthreadable callable alias).
"""

import signal

from simkit import simproc

SIZES = (0, 1, 7, 100, 1023, 1024, 1025, 2048, 3000, 4095, 4096, 4097, 9000, 65535, 65536, 65537, 140000)
SIZE_W = (3, 3, 3, 8, 6, 6, 6, 4, 8, 4, 4, 4, 6, 2, 2, 2, 1)
TEXT_CLASSES = ("lines", "oneline", "utf8", "esc", "crlf")
ALL_CLASSES = TEXT_CLASSES + ("binary",)
_UP = bytes.maketrans(b"abcdefghijklmnopqrstuvwxyz", b"ABCDEFGHIJKLMNOPQRSTUVWXYZ")
_UP_STR = {ord(a): ord(a.upper()) for a in "abcdefghijklmnopqrstuvwxyz"}


def T(b, tr):
    if tr == "upper":
        return b.translate(_UP)
    return b


def T_str(s, tr):
    if tr == "upper":
        return s.translate(_UP_STR)
    return s


def gen_payload_spec(rng, tag, classes=ALL_CLASSES, sizes=SIZES, weights=SIZE_W):
    n = rng.choices(sizes, weights)[0]
    if n > 4097 and rng.random() < 0.5:
        n += rng.randrange(-3, 4)
    cls = rng.choice(classes)
    spec = {"cls": cls, "n": n, "tag": tag}
    if cls in ("lines", "oneline"):
        spec["final_nl"] = rng.random() < 0.7
    return spec


def gen_emit_script(rng, spec, err_spec, rc, slow):
    """Script for an emitting SimProc: segments of stdout with pauses, stderr somewhere, exit."""
    n = len(simproc.make_payload(spec))
    script = []
    if rng.random() < 0.3:
        script.append(["sleep", rng.choice((1e-5, 1e-3, 0.05, 0.2) if slow else (1e-5, 1e-3))])
    nseg = rng.choice((1, 1, 2, 3, 5)) if n > 1 else 1
    cuts = sorted({0, n} | {rng.randrange(0, n + 1) for _ in range(nseg - 1)}) if n else [0, 0]
    pieces = []
    for a, b in zip(cuts, cuts[1:]):
        chunk = rng.choice((1, 13, 512, 1000, 1024, 4096, 5000, 65536, 1 << 20))
        if b - a > 20000 and chunk < 512:
            chunk = 512
        pieces.append(["out", 1, spec, a, b, chunk])
    if err_spec is not None:
        en = len(simproc.make_payload(err_spec))
        pieces.insert(rng.randrange(0, len(pieces) + 1), ["out", 2, err_spec, 0, en, rng.choice((7, 512, 4096))])
    for i, pc in enumerate(pieces):
        script.append(pc)
        if i < len(pieces) - 1 and rng.random() < 0.6:
            script.append(["sleep", rng.choice((0.0, 1e-5, 2e-4, 1e-3, 0.02) + ((0.3, 1.5) if slow else ()))])
    if rng.random() < 0.25:
        script.append(["close", 1])
    if rng.random() < 0.3:
        script.append(["sleep", rng.choice((1e-5, 1e-3, 0.05) + ((0.5,) if slow else ()))])
    if rc < 0:
        script.append(["die", -rc])
    else:
        script.append(["exit", rc])
    return script


def gen_stage(rng, idx, nstages, is_last, tag, slow=False, allow_alias=True, allow_unthr=True, text_only=False, rcs=(0, 0, 0, 1, 2, 3, -9, -15)):
    first = idx == 0
    kinds = ["proc"] * 5
    if allow_alias:
        kinds += ["alias"] * 3
    if allow_unthr and is_last:
        kinds += ["uproc"]
    if allow_unthr and allow_alias and nstages == 1:
        kinds += ["ualias"]
    kind = rng.choice(kinds)
    if first:
        role = "emit"
    else:
        role = rng.choice(("filter", "filter", "filter", "head", "sink_emit", "emit"))
    st = {"kind": kind, "role": role, "idx": idx}
    rc = rng.choice(rcs)
    if kind in ("alias", "ualias"):
        rc = abs(rc) % 120
    st["rc"] = rc
    classes = TEXT_CLASSES if (text_only or kind in ("alias", "ualias")) else ALL_CLASSES
    if kind in ("alias", "ualias"):
        classes = ("lines", "oneline", "utf8", "esc")
    if role in ("emit", "sink_emit"):
        st["payload"] = gen_payload_spec(rng, tag, classes)
        if rng.random() < 0.4:
            st["err"] = {"cls": "lines", "n": rng.choice((10, 200, 1500, 5000)), "tag": 900 + tag}
    if role == "filter":
        st["tr"] = rng.choice((None, "upper"))
        st["rs"] = rng.choice((1, 64, 1024, 4096, 65536))
    if role == "head":
        st["k"] = rng.choice((0, 1, 10, 1000, 1024, 5000))
    if kind in ("proc", "uproc"):
        if role in ("emit", "sink_emit"):
            st["script"] = gen_emit_script(rng, st["payload"], st.get("err"), rc, slow)
            if role == "sink_emit":
                st["script"].insert(0, ["readall", rng.choice((64, 4096))])
        elif role == "filter":
            st["script"] = [["cat", st["rs"], st["tr"]]] + ([["sleep", rng.choice((1e-4, 0.01))]] if rng.random() < 0.3 else []) + ([["die", -rc]] if rc < 0 else [["exit", rc]])
        elif role == "head":
            st["script"] = [["headcopy", st["k"]]] + ([["die", -rc]] if rc < 0 else [["exit", rc]])
    else:
        if role in ("emit", "sink_emit"):
            modes = ["write", "print", "return_str", "return_tuple", "bufwrite"]
            st["mode"] = rng.choice(modes)
            st["chunk"] = rng.choice((1, 50, 1000, 4096, 100000))
            if st["mode"] == "print" and (not _ends_nl(st["payload"]) or kind == "ualias"):
                # print() in an unthreadable alias goes to the shell's own sys.stdout by design
                st["mode"] = "write"
            if st["payload"]["n"] > 20000 and st["chunk"] < 50:
                st["chunk"] = 1000
            if st["payload"]["n"] > 20000 and st["mode"] == "print":
                st["mode"] = "write"  # thousands of print() calls only burn the step budget
    return st


def _ends_nl(spec):
    b = simproc.make_payload(spec)
    return b.endswith(b"\n") or not b


def gen_pipeline(rng, max_stages=4, slow=False, **kw):
    n = rng.choices((1, 2, 3, 4)[:max_stages], (5, 5, 2, 1)[:max_stages])[0]
    stages = []
    for i in range(n):
        st = gen_stage(rng, i, n, i == n - 1, tag=i + 1, slow=slow, **kw)
        stages.append(st)
    fix_pipeline(stages)
    return stages


def fix_pipeline(stages):
    """Make the stage list satisfy the generator's own restrictions (after shrinking too)."""
    n = len(stages)
    for i, st in enumerate(stages):
        st["idx"] = i
        if i == 0 and st["role"] not in ("emit",):
            # first stage has no upstream: it must emit something of its own
            if "payload" not in st:
                st["payload"] = {"cls": "lines", "n": 100, "tag": i + 1, "final_nl": True}
            st["role"] = "emit"
            if st["kind"] in ("proc", "uproc"):
                st["script"] = [["out", 1, st["payload"], 0, len(simproc.make_payload(st["payload"])), 4096], ["exit", max(st["rc"], 0)]]
            else:
                st.setdefault("mode", "write")
                st.setdefault("chunk", 1000)
        if st["kind"] == "ualias" and n > 1:
            st["kind"] = "alias"
        if st["kind"] == "uproc" and i != n - 1:
            st["kind"] = "proc"
    # bound the work of byte-at-a-time filters (keeps runs inside the step budget)
    try:
        outs = model_outputs(stages)
    except Exception:
        outs = None
    if outs is not None:
        for i, st in enumerate(stages):
            if i and st["role"] == "filter" and st.get("rs", 4096) < 1024 and len(outs[i - 1]) / st["rs"] > 2500:
                st["rs"] = 4096
                if st["kind"] in ("proc", "uproc"):
                    st["script"] = [[a[0], 4096, *a[2:]] if a[0] == "cat" else a for a in st["script"]]
    # an alias filter reads text with universal newlines: upstream must not contain CR / binary
    for i, st in enumerate(stages):
        if st["kind"] in ("alias", "ualias") and st["role"] in ("filter", "head"):
            for up in stages[:i]:
                if "payload" in up and up["payload"]["cls"] in ("crlf", "binary"):
                    up["payload"]["cls"] = "lines"
                    up["payload"].setdefault("final_nl", True)
                if "payload" in up and up["payload"]["cls"] == "utf8" and st["role"] == "head":
                    up["payload"]["cls"] = "lines"
                    up["payload"].setdefault("final_nl", True)
    return stages


def stage_name(st):
    return {"proc": "simp", "uproc": "simu", "alias": "sima", "ualias": "simua"}[st["kind"]] + str(st["idx"])


def stage_cmd(st):
    return f"{stage_name(st)} s{st['idx']}"


def model_outputs(stages):
    """Bytes each stage writes to its stdout (dataflow model)."""
    outs = []
    prev = b""
    for st in stages:
        role = st["role"]
        if role in ("emit", "sink_emit"):
            o = simproc.make_payload(st["payload"])
            if st["kind"] in ("proc", "uproc"):
                o = _script_stdout(st["script"], st["payload"])
        elif role == "filter":
            o = T(prev, st.get("tr"))
        elif role == "head":
            o = prev[: st["k"]]
        else:
            raise ValueError(role)
        outs.append(o)
        prev = o
    return outs


def _script_stdout(script, spec):
    """What an emit script writes to fd 1 before closing it / exiting."""
    data = simproc.make_payload(spec)
    out = bytearray()
    for act in script:
        if act[0] == "out" and act[1] == 1:
            out += data[act[3] : act[4]]
        elif act[0] == "close" and act[1] == 1:
            break
        elif act[0] in ("exit", "die"):
            break
    return bytes(out)


def expected_rc(st):
    return st["rc"]


# ---- callable aliases ------------------------------------------------------------------------
def make_alias(st, log):
    """Build the callable alias implementing stage st.  log: list collecting what it saw."""
    role = st["role"]
    rc = st["rc"]
    tr = st.get("tr")

    def emit(stdout, stderr):
        text = simproc.make_payload(st["payload"]).decode("utf-8", "surrogateescape")
        etext = None
        if "err" in st:
            etext = simproc.make_payload(st["err"]).decode("utf-8", "surrogateescape")
        mode = st.get("mode", "write")
        ch = max(int(st.get("chunk", 1000)), 1)
        if mode == "write":
            for i in range(0, len(text), ch):
                stdout.write(text[i : i + ch])
            if etext:
                stderr.write(etext)
            return rc
        if mode == "bufwrite":
            data = text.encode("utf-8", "surrogateescape")
            stdout.flush()
            for i in range(0, len(data), ch):
                stdout.buffer.write(data[i : i + ch])
            stdout.buffer.flush()
            if etext:
                stderr.write(etext)
            return rc
        if mode == "print":
            for line in text.splitlines():
                print(line)
            if etext:
                stderr.write(etext)
            return rc
        if mode == "return_str":
            if etext:
                stderr.write(etext)
            return text if rc == 0 else (text, None, rc)
        if mode == "return_tuple":
            return (text, etext, rc)
        raise ValueError(mode)

    def fn(args, stdin=None, stdout=None, stderr=None):
        log.append(("start", st["idx"], list(args)))
        if role == "emit":
            return emit(stdout, stderr)
        if role == "sink_emit":
            if stdin is not None:
                for _ in stdin:
                    pass
            return emit(stdout, stderr)
        if role == "filter":
            if stdin is not None:
                for line in stdin:
                    stdout.write(T_str(line, tr))
            return rc
        if role == "head":
            want = st["k"]
            if stdin is not None and want > 0:
                data = stdin.read(want)  # characters; upstream is ASCII for head stages
                stdout.write(data)
            return rc
        raise ValueError(role)

    fn.__name__ = stage_name(st)
    if st["kind"] == "ualias":
        fn.__xonsh_threadable__ = False
    return fn


def setup_stages(ctx, stages, alias_log):
    """Create stub executables / aliases / scripts for the stages in a RunCtx."""
    for st in stages:
        name = stage_name(st)
        if st["kind"] in ("proc", "uproc"):
            ctx.add_stub(name, unthreadable=(st["kind"] == "uproc"))
            simproc.SCRIPTS[f"s{st['idx']}"] = st["script"]
        else:
            ctx.XSH.aliases[name] = make_alias(st, alias_log)


_ = signal
