"""C09 - running a command leaves the shell session as it found it.

Sequences of pipelines with per-stage failure modes run through the real Execer/procs code
under the SimKernel; after every command (at quiescence) the process state is compared with
the state before: fd table, simulated children, helper threads, cwd, sys.std*, terminal
owner, environment, SIGINT behaviour; over repetitions the growth clauses.
"""

import copy
import gc
import hashlib
import os
import signal
import sys
import traceback

from simkit import procworld, simos, simproc
from simkit.engine import Engine

from . import pipegen

FORMS = ("bare", "![]", "$[]", "$()", "!()")


def sigint_chain_depth():
    h = signal.getsignal(signal.SIGINT)
    depth = 0
    seen = set()
    while h is not None and id(h) not in seen:
        seen.add(id(h))
        owner = getattr(h, "__self__", None)
        if owner is None or not hasattr(owner, "old_int_handler"):
            break
        depth += 1
        h = owner.old_int_handler
    return depth


class C09(Engine):
    property_id = "C09"
    level = "exploration"
    budgets = {
        "quick": {"runs": 2600, "wall": 80, "min_runs": 150, "min_wall": 30},
        "thorough": {"runs": 80000, "wall": 1500, "min_runs": 400, "min_wall": 90},
    }
    rule = (
        "case = 1-3 commands (capture form x 1-3 stages x per-stage failure mode: exit!=0, killed by signal, command not found, not executable, "
        "alias raising Exception/OSError/SystemExit, alias closing its stdout, consumer exiting early under an unbounded producer, unthreadable alias in a "
        "pipeline, conflicting redirects, background &) x repetition count (1,5,25) x interactive on/off x schedule knobs; run under the SimKernel; "
        "non-trivial = >=1 failure mode present or >=2 helper threads, and >=1 pre-emption or blocking; distinct = distinct (command shapes, schedule digest)"
    )
    state_measure = "distinct (form, stage kinds/roles/failure modes, reps, interactive) tuples"
    assumptions = [
        "child processes are SimProc stubs; terminal ownership is the SimTTY record (sandbox has no controlling tty)",
        "baseline snapshot is taken after one trivial warm-up command (one-time lazy allocations are not counted)",
        "fds that disappear only because of the gc.collect() at the quiescence point are counted in a probe, not flagged",
        "SIGINT is delivered with signal.raise_signal() to the main thread after the command; it must surface as KeyboardInterrupt",
    ]
    components = {
        "real": ["Execer", "procs.specs/pipelines/posix/proxies/readers/pipes/jobs", "kernel pipes/ptys", "signal handlers on the real main thread"],
        "stub": ["child processes (SimProc)", "scheduler", "clock", "waitpid/kill/killpg/tcsetpgrp", "terminal"],
    }
    expected_probes = ["cmd_not_found_midpipe", "alias_raised", "consumer_exited_early", "repeated_25", "background_job", "closed_only_by_gc", "interactive_runs"]

    def warmup(self):
        procworld.warm()

    # ------------------------------------------------------------------ generation
    def gen_cmd(self, rng, ci):
        form = rng.choice(FORMS)
        n = rng.choices((1, 2, 3), (4, 5, 2))[0]
        stages = []
        for i in range(n):
            last = i == n - 1
            fm = rng.choices(
                ("ok", "exit", "die", "missing", "noexec", "a_raise", "a_close", "a_ok", "head_big", "ualias_pipe"),
                (8, 3, 2, 3, 1, 3, 1.5, 4, 2, 0.7),
            )[0]
            st = {"idx": i, "fm": fm, "tag": ci * 10 + i + 1}
            if fm in ("ok", "exit", "die", "head_big"):
                st["kind"] = "uproc" if (last and rng.random() < 0.15) else "proc"
                st["rc"] = {"ok": 0, "exit": rng.choice((1, 2, 7)), "die": -rng.choice((9, 15, 13)), "head_big": 0}[fm]
                st["n"] = rng.choice((0, 10, 1000, 5000, 70000))
                st["chunk"] = rng.choice((13, 1024, 4096, 65536))
                st["pause"] = rng.choice((0, 0, 1e-4, 0.01))
                st["err_n"] = rng.choice((0, 0, 50, 3000))
                if fm == "head_big" and i > 0:
                    st["role"] = "head"
                    st["k"] = rng.choice((0, 1, 100, 4096))
                    stages[i - 1].update(n=rng.choice((70000, 150000)), chunk=4096)
                else:
                    st["role"] = "emit" if (i == 0 or rng.random() < 0.3) else "filter"
            elif fm in ("missing", "noexec"):
                st["kind"] = fm
            elif fm in ("a_raise", "a_close", "a_ok"):
                st["kind"] = "alias"
                st["exc"] = rng.choice(("Exception", "OSError", "SystemExit", "ValueError", "BrokenPipeError"))
                st["rc"] = rng.choice((0, 0, 1, 3))
                st["n"] = rng.choice((0, 10, 1000, 20000))
                st["role"] = "emit" if (i == 0 or rng.random() < 0.4) else "filter"
                st["mode"] = rng.choice(("write", "print", "return_str"))
            elif fm == "ualias_pipe":
                st["kind"] = "ualias"
                st["rc"] = 0
                st["n"] = 10
                st["role"] = "emit"
                st["mode"] = "write"
            stages.append(st)
        cmd = {"form": form, "stages": stages, "bg": form in ("bare", "![]") and rng.random() < 0.08, "redir_conflict": rng.random() < 0.05, "reps": rng.choice((1, 1, 1, 5, 5, 25)), "error_raise": form != "!()" and rng.random() < 0.1}
        if form == "$[]" and stages[-1]["fm"] == "a_close":
            stages[-1]["fm"] = "a_ok"  # closing the terminal handed to an uncaptured alias is the alias's own doing
        cap = {1: 10**9, 5: 5000, 25: 1000}[cmd["reps"]]
        for st in stages:  # keep repeated commands inside the step budget
            if st.get("n", 0) > cap:
                st["n"] = cap
        if cmd["bg"]:
            cmd["reps"] = 1
        return cmd

    def gen_case(self, rng, tier, seed):
        ncmd = rng.choices((1, 2, 3), (5, 3, 1))[0]
        ops = [self.gen_cmd(rng, i) for i in range(ncmd)]
        if sum(c["reps"] for c in ops) > 30:
            for c in ops[1:]:
                c["reps"] = 1
        knobs = {
            "p": rng.choice((0.0, 0.02, 0.1, 0.3)),
            "policy": rng.choice(("random", "random", "starve", "pct", "rr", "nopreempt")),
            "victim": rng.randrange(1, 9),
            "pct_points": sorted(rng.randrange(1, 3000) for _ in range(rng.choice((1, 2, 3)))),
            "pipe_cap": rng.choice((4096, 65536, 65536)),
            "proc_freq": rng.choice((1e-4, 1e-3, 1e-5)),
            "clock_seed": rng.randrange(1 << 30),
            "max_steps": 1_500_000,
        }
        return {"seed": seed, "ops": ops, "knobs": knobs, "interactive": rng.random() < 0.3, "raise_error": rng.random() < 0.5, "cmd_raise": rng.random() < 0.3}

    def case_valid(self, case):
        return bool(case["ops"])

    def simplify(self, case):
        for i, c in enumerate(case["ops"]):
            if c["reps"] > 1:
                for r in (1, 5):
                    if r < c["reps"]:
                        k = copy.deepcopy(case)
                        k["ops"][i]["reps"] = r
                        yield k
            if len(c["stages"]) > 1:
                for j in range(len(c["stages"])):
                    k = copy.deepcopy(case)
                    del k["ops"][i]["stages"][j]
                    for jj, s in enumerate(k["ops"][i]["stages"]):
                        s["idx"] = jj
                        if jj == 0 and s.get("role") in ("filter", "head"):
                            s["role"] = "emit"
                    yield k
            if c["bg"] or c["redir_conflict"]:
                k = copy.deepcopy(case)
                k["ops"][i]["bg"] = False
                k["ops"][i]["redir_conflict"] = False
                yield k
        if case["interactive"]:
            k = copy.deepcopy(case)
            k["interactive"] = False
            yield k
        if case["knobs"]["policy"] != "random":
            k = copy.deepcopy(case)
            k["knobs"]["policy"] = "random"
            yield k
        for p in (0.0, 0.02):
            if case["knobs"]["p"] > p:
                k = copy.deepcopy(case)
                k["knobs"]["p"] = p
                yield k

    # ------------------------------------------------------------------ world setup
    def _setup_cmd(self, ctx, ci, cmd, log):
        names = []
        for st in cmd["stages"]:
            name = f"c{ci}s{st['idx']}"
            kind = st["kind"]
            sid = f"x{ci}_{st['idx']}"
            if kind in ("proc", "uproc"):
                ctx.add_stub(name, unthreadable=(kind == "uproc"))
                spec = {"cls": "lines", "n": st["n"], "tag": st["tag"], "final_nl": True}
                script = []
                role = st["role"]
                if role == "filter":
                    script.append(["cat", 4096, None])
                elif role == "head":
                    script.append(["headcopy", st["k"]])
                if role != "head":
                    ln = len(simproc.make_payload(spec))
                    if st["pause"]:
                        half = ln // 2
                        script += [["out", 1, spec, 0, half, st["chunk"]], ["sleep", st["pause"]], ["out", 1, spec, half, ln, st["chunk"]]]
                    else:
                        script.append(["out", 1, spec, 0, ln, st["chunk"]])
                if st["err_n"]:
                    es = {"cls": "lines", "n": st["err_n"], "tag": 900 + st["tag"]}
                    script.append(["out", 2, es, 0, len(simproc.make_payload(es)), 512])
                script.append(["die", -st["rc"]] if st["rc"] < 0 else ["exit", st["rc"]])
                simproc.SCRIPTS[sid] = script
                names.append(f"{name} {sid}")
            elif kind == "missing":
                names.append(f"nosuch{ci}_{st['idx']} arg")
            elif kind == "noexec":
                ctx.add_stub(name, mode=0o644)
                names.append(f"{name} arg")
            else:
                ctx.XSH.aliases[name] = self._make_alias(st, log)
                names.append(f"{name} {sid}")
        if cmd.get("error_raise") and names:
            names[-1] = "@error_raise " + names[-1]  # per-command raising: the failure surfaces from inside the pipeline's end()
        line = " | ".join(names)
        if cmd["redir_conflict"]:
            line += " > rc_a.txt > rc_b.txt"
        if cmd["bg"]:
            line += " &"
        form = cmd["form"]
        if form == "bare":
            return line + "\n"
        if form == "![]":
            return f"![{line}]\n"
        if form == "$[]":
            return f"$[{line}]\n"
        if form == "$()":
            return f"r = $({line})\n"
        return f"r = !({line})\n"

    @staticmethod
    def _make_alias(st, log):
        fm = st["fm"]
        text = simproc.make_payload({"cls": "lines", "n": st["n"], "tag": st["tag"], "final_nl": True}).decode()

        def fn(args, stdin=None, stdout=None, stderr=None):
            if st["role"] == "filter" and stdin is not None:
                for line in stdin:
                    stdout.write(line)
            if fm == "a_raise":
                stdout.write(text[: len(text) // 2])
                exc = st["exc"]
                if exc == "SystemExit":
                    raise SystemExit(3)
                raise {"Exception": Exception, "OSError": OSError, "ValueError": ValueError, "BrokenPipeError": BrokenPipeError}[exc]("alias failed on purpose")
            if fm == "a_close":
                stdout.write(text)
                stdout.close()
                return st["rc"]
            if st["mode"] == "print":
                for ln in text.splitlines():
                    print(ln)
                return st["rc"]
            if st["mode"] == "return_str":
                return text if st["rc"] == 0 else (text, None, st["rc"])
            stdout.write(text)
            return st["rc"]

        if st["kind"] == "ualias":
            fn.__xonsh_threadable__ = False
        return fn

    # ------------------------------------------------------------------ snapshots
    def _snapshot(self, ctx, harness_fds):
        fds = {}
        proc_fds = set()
        for p in simproc.ALL:
            proc_fds.update(p.fds.values())
        for n, tgt in procworld.fd_table().items():
            if n in harness_fds or n in proc_fds:
                continue
            if tgt.startswith("/proc/"):
                continue
            fds[n] = tgt
        XSH = ctx.XSH
        return {
            "fds": fds,
            "cwd": os.getcwd(),
            "stdio": (id(sys.stdin), id(sys.stdout), id(sys.stderr)),
            "stdio_closed": (sys.stdin.closed, sys.stdout.closed, sys.stderr.closed),
            "tty": simos.TABLE.tty_fg,
            "env": dict(XSH.env.detype()),
            "threads": [r.name for r in ctx.k.alive(("thread",))],
            "sigdepth": sigint_chain_depth(),
            "children_live": [p.pid for p in simproc.ALL if p.status is None and not p.background],
            "zombies": [p.pid for p in simproc.ALL if p.status is not None and not p.reaped and not p.background],
        }

    # ------------------------------------------------------------------ run
    def run_case(self, case, tape, emit):
        ctx = procworld.RunCtx(case["seed"], case["knobs"], tape, emit)
        XSH = ctx.XSH
        env = XSH.env
        env["XONSH_PROC_FREQUENCY"] = case["knobs"]["proc_freq"]
        env["XONSH_SUBPROC_RAISE_ERROR"] = bool(case["raise_error"])
        env["XONSH_SUBPROC_CMD_RAISE_ERROR"] = bool(case.get("cmd_raise", False))
        env["XONSH_INTERACTIVE"] = bool(case["interactive"])
        signal.signal(signal.SIGINT, signal.default_int_handler)
        alias_log = []
        srcs = [self._setup_cmd(ctx, ci, cmd, alias_log) for ci, cmd in enumerate(case["ops"])]
        ctx.add_stub("warmcmd")
        simproc.SCRIPTS["w"] = [["outb", 1, "warm\n"], ["exit", 0]]
        harness_fds = set(procworld.fd_table())  # everything open before the session starts is the harness's
        V = []
        probes = {k: 0 for k in self.expected_probes}
        probes["interactive_runs"] = int(case["interactive"])
        ctx.partial = {"abort_sig": {"where": "command"}, "summary": {"srcs": [s.strip() for s in srcs]}}
        ctx.start()
        k = ctx.k

        def viol(clause, msg, **sig):
            V.append({"clause": clause, "msg": msg, "sig": sig})

        def run_one(src):
            g = None
            try:
                g = ctx.exec_src(src)
                r = g.get("r") if g is not None else None
                if r is not None and hasattr(r, "end"):
                    try:
                        r.end()
                    except BaseException as e:  # noqa: B902
                        if isinstance(e, procworld._k.SimExit):
                            raise
                    g.pop("r", None)
            except BaseException as e:  # noqa: B902 - errors of the command itself are expected
                if isinstance(e, procworld._k.SimExit):
                    raise
                return type(e).__name__
            return None

        bg_seen = [False]
        base_threads = [set()]

        def settle():
            # wait for the helper threads of this command (not for those a background job still owns)
            quiet = k.wait_quiescent(10.0, include=lambda r: r.kind == "thread" and r.name not in base_threads[0])
            before_gc = len(procworld.fd_table())
            gc.collect()
            if len(procworld.fd_table()) < before_gc:
                probes["closed_only_by_gc"] += 1
            return quiet

        # warm-up command, then the baseline
        run_one("r = $(warmcmd w)\n")
        settle()
        base = self._snapshot(ctx, harness_fds)
        exc = None
        try:
            for ci, (cmd, src) in enumerate(zip(case["ops"], srcs)):
                fms = [s["fm"] for s in cmd["stages"]]
                sigbase = {"form": cmd["form"], "fms": "+".join(fms), "bg": cmd["bg"], "nstages": len(fms), "interactive": case["interactive"]}
                if "missing" in fms[:-1] or ("missing" in fms and len(fms) > 1):
                    probes["cmd_not_found_midpipe"] += 1
                if "a_raise" in fms:
                    probes["alias_raised"] += 1
                if "head_big" in fms:
                    probes["consumer_exited_early"] += 1
                if cmd["reps"] >= 25:
                    probes["repeated_25"] += 1
                if cmd["bg"]:
                    probes["background_job"] += 1
                snaps = []
                for rep in range(cmd["reps"]):
                    ctx.partial["abort_sig"] = dict(sigbase, where="command")
                    run_one(src)
                    quiet = settle()
                    snap = self._snapshot(ctx, harness_fds)
                    snaps.append(snap)
                    if cmd["bg"]:
                        # a background pipeline has not finished: nothing to compare; what it holds
                        # becomes part of the baseline for the commands after it
                        base = snap
                        bg_seen[0] = True
                        base_threads[0] = set(snap["threads"])
                        for p_ in simproc.ALL:
                            p_.background = True
                        continue
                    if rep == 0 or rep == cmd["reps"] - 1:
                        self._compare(base, snap, quiet, src, rep, sigbase, viol, cmd)
                    if V:
                        break
                if not V and cmd["reps"] >= 5:
                    a, b = snaps[0], snaps[-1]
                    if len(b["fds"]) > len(a["fds"]):
                        viol("fds.no_growth", f"{src.strip()} repeated {cmd['reps']}x: open fds grew from {len(a['fds'])} to {len(b['fds'])}: new {sorted(set(b['fds']) - set(a['fds']))[:8]}", **sigbase)
                    if len(b["threads"]) > len(a["threads"]):
                        viol("threads.no_growth", f"{src.strip()} repeated {cmd['reps']}x: live helper threads grew from {len(a['threads'])} to {len(b['threads'])}", **sigbase)
                    if b["sigdepth"] > a["sigdepth"]:
                        viol("sigchain.no_growth", f"{src.strip()} repeated {cmd['reps']}x: the chain of saved SIGINT handlers deepened from {a['sigdepth']} to {b['sigdepth']} (Ctrl-C ends in RecursionError eventually)", **sigbase)
                    if len(b["zombies"]) + len(b["children_live"]) > len(a["zombies"]) + len(a["children_live"]):
                        viol("children.no_growth", f"{src.strip()} repeated {cmd['reps']}x: unreaped/running children grew", **sigbase)
                if V:
                    break
                # Ctrl-C must still interrupt
                if not cmd["bg"] and not bg_seen[0]:  # (a running background job may legitimately own the handler)
                    got = None
                    try:
                        signal.raise_signal(signal.SIGINT)
                        for _ in range(3):
                            pass
                    except KeyboardInterrupt:
                        got = "KeyboardInterrupt"
                    except BaseException as e:  # noqa: B902
                        got = type(e).__name__
                    if got != "KeyboardInterrupt":
                        viol("sigint.works", f"after {src.strip()} a SIGINT to the shell ended in {got!r} instead of KeyboardInterrupt; installed handler {signal.getsignal(signal.SIGINT)!r}", **sigbase)
                    signal.signal(signal.SIGINT, signal.default_int_handler)
        except BaseException as e:  # noqa: B902
            if isinstance(e, procworld._k.SimExit):
                raise
            exc = traceback.format_exc()[-1500:]
            viol("harness.exception", exc)
        k.stop()
        tty_o, tty_e = ctx.read_tty()
        res = ctx.base_result()
        if V and V[0]["clause"] == "harness.exception":
            return {"harness_error": V[0]["msg"]}
        res["violations"] = V[:4]
        res["probes"].update(probes)
        res["faults"] = self._faults(case)
        nthreads = res["stats"]["threads"]
        res["nontrivial"] = (any(s["fm"] != "ok" for c in case["ops"] for s in c["stages"]) or nthreads >= 2) and (k.preempts > 0 or res["probes"]["reader_blocked"] > 0)
        shape = tuple((c["form"], tuple((s["kind"], s.get("role"), s["fm"]) for s in c["stages"]), c["reps"], c["bg"]) for c in case["ops"]) + (case["interactive"],)
        res["states"] = [hashlib.sha1(repr(shape).encode()).hexdigest()[:12]]
        res["key"] = hashlib.sha1((repr(shape) + res["digest"]).encode()).hexdigest()[:16]
        res["summary"] = {"srcs": [s.strip() for s in srcs], "threads": nthreads, "decisions": k.d}
        if V:
            res["tty_err_tail"] = tty_e[-1200:].decode("utf-8", "replace")
        return res

    def _compare(self, base, snap, quiet, src, rep, sigbase, viol, cmd):
        s = src.strip()
        new_fds = {n: t for n, t in snap["fds"].items() if n not in base["fds"]}
        if new_fds:
            viol("fds.same", f"after {s} (repetition {rep}) the shell holds additional open descriptors {new_fds}", nfds=len(new_fds), **sigbase)
        new_threads = [t for t in snap["threads"] if t not in base["threads"]]
        if new_threads:
            viol("threads.none", f"after {s} helper threads are still running 10 simulated seconds later: {new_threads}", **sigbase)
        if snap["children_live"] and not cmd["bg"]:
            viol("children.reaped", f"after {s} foreground children are still running: {snap['children_live']}", state="running", **sigbase)
        if snap["zombies"] and not cmd["bg"]:
            viol("children.reaped", f"after {s} foreground children were never reaped: {snap['zombies']}", state="zombie", **sigbase)
        if snap["cwd"] != base["cwd"]:
            viol("cwd.same", f"after {s} cwd changed {base['cwd']} -> {snap['cwd']}", **sigbase)
        if snap["stdio"] != base["stdio"] or any(snap["stdio_closed"]):
            viol("stdio.same", f"after {s} sys.stdin/stdout/stderr were replaced or closed: same={snap['stdio'] == base['stdio']} closed={snap['stdio_closed']}", **sigbase)
        if snap["tty"] != base["tty"] and not cmd["bg"]:
            viol("tty.returned", f"after {s} the terminal's foreground process group is {snap['tty']} not the shell's {base['tty']}", **sigbase)
        if snap["env"] != base["env"]:
            diff = {k_: (base["env"].get(k_), snap["env"].get(k_)) for k_ in set(base["env"]) | set(snap["env"]) if base["env"].get(k_) != snap["env"].get(k_)}
            viol("env.same", f"after {s} the environment changed: {diff}", keys="+".join(sorted(diff)), **sigbase)

    @staticmethod
    def _faults(case):
        f = {}
        for c in case["ops"]:
            for s in c["stages"]:
                if s["fm"] != "ok":
                    f[s["fm"]] = f.get(s["fm"], 0) + 1
            if c["redir_conflict"]:
                f["conflicting_redirects"] = f.get("conflicting_redirects", 0) + 1
            if c["bg"]:
                f["background"] = f.get("background", 0) + 1
        if case["knobs"]["pipe_cap"] < 65536:
            f["small_pipe_capacity"] = 1
        if case["knobs"]["policy"] == "starve":
            f["starved_thread_policy"] = 1
        return f


ENGINE = C09()
