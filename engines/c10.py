"""C10 - the typed environment survives the trip to child processes and back.

Histories of set / delete / in-place edit (fresh and held references) / swap / mask /
per-command overlay / UPDATE_OS_ENVIRON / detype() operations on the live session environment,
with launches of a simulated `envcmd` (from the main thread and from inside an alias thread)
whose received mapping is compared with a shadow model that never reads through Env.
"""

import contextlib
import copy
import hashlib
import os
import traceback

from simkit import procworld, simproc
from simkit.engine import Engine

EXCLUDE = {
    "UPDATE_OS_ENVIRON", "XONSH_INTERACTIVE", "XONSH_LOGIN", "THREAD_SUBPROCS", "XONSH_PROC_FREQUENCY", "PATH", "XONSH_DATA_DIR", "XONSH_CACHE_DIR",
    "XONSH_CONFIG_DIR", "XONSH_SUBPROC_RAISE_ERROR", "XONSH_SUBPROC_CMD_RAISE_ERROR", "RAISE_SUBPROC_ERROR", "XONSH_SHOW_TRACEBACK", "XONSH_CAPTURE_ALWAYS",
    "XONSH_TRACE_SUBPROC", "XONSH_SUBPROC_TRACE", "XONSH_DEBUG", "PWD", "OLDPWD", "HOME", "XONSH_ENCODING", "XONSH_ENCODING_ERRORS", "XONSH_STORE_STDIN",
    "XONSH_SUBPROC_OUTPUT_FORMAT", "AUTO_CD", "XONSH_COMMANDS_CACHE_READ_DIR_ONCE", "ENABLE_COMMANDS_CACHE", "COMMANDS_CACHE_SAVE_INTERMEDIATE",
    "XONSH_TRACEBACK_LOGFILE", "XONSH_STDERR_PREFIX", "XONSH_STDERR_POSTFIX", "FOREIGN_ALIASES_SUPPRESS_SKIP_MESSAGE", "XONSH_ENV_INHERITED",
    "XONSH_COLOR_STYLE",  # configuration OF the $LS_COLORS conversion (colour name <-> escape code table); arbitrary strings are not style names
}
STRS = ("plain", "with space", "ünï©ödé 中文 \U0001d11e", "a=b;c", "quote'\"s", "tab\there", "", "  padded  ", "new\nline", "$NOT_EXPANDED ~tilde *glob", "\\back\\slash")
PATHS = ("/usr/bin", "/opt/my tools/bin", "relative/dir", "/ünï/中", ".", "/a//b/", "/x y/~z", "")
HC = ("ignoredups", "ignoreerr", "ignorespace", "erasedups")
LSC = {"di": ["BOLD_BLUE"], "ex": ["BOLD_GREEN"], "*.tar": ["BOLD_RED"], "ln": ["BOLD_CYAN"], "*.gz": ["RED", "BACKGROUND_BLACK"], "fi": ["RESET"], "so": ["PURPLE"]}


class C10(Engine):
    property_id = "C10"
    level = "exploration"
    budgets = {
        "quick": {"runs": 8000, "wall": 80, "min_runs": 200, "min_wall": 30},
        "thorough": {"runs": 120000, "wall": 1500, "min_runs": 500, "min_wall": 90},
    }
    rule = (
        "case = history of 4-40 operations on the live session environment: set (typed or string form) / delete of registered variables found by walking "
        "env._vars (families bool, str, env_path, int, float, bool-or-none, csv set, history tuple, dynamic-cwd tuple, shlvl), of names matching the *PATH / *DIRS "
        "patterns, of newly registered typed variables and of untyped names; in-place edits through a fresh and through an earlier-held reference; swap scopes "
        "with values and DELETE_VAR masks; per-command `$K=v cmd` overlays; UPDATE_OS_ENVIRON toggles; detype()/read probes that populate caches; launches of a "
        "simulated child from the main thread and from inside an alias thread. non-trivial = >=1 launch after >=3 mutations incl. an in-place edit, swap or "
        "delete; distinct = distinct (op-kind sequence, variable families touched)"
    )
    state_measure = "distinct (op-kind sequences prefix 10, families touched)"
    assumptions = [
        "values contain no NUL, path elements no os.pathsep, csv elements no comma",
        "the registered detyper of a variable, applied to the shadow value, defines the expected string (the property is about the mapping handed over, "
        "history and caching; detyper/converter pairs are judged by the round-trip clause)",
        "variables whose assignment reconfigures the running session or the harness are excluded (listed in EXCLUDE)",
    ]
    components = {
        "real": ["environ.Env (_set_item, _del_item, __getitem__, detype, swap, register, UPDATE_OS_ENVIRON mirroring)", "environ.EnvPath", "tools converter/detyper pairs", "procs.specs.SubprocSpec.prep_env_subproc + run", "aliases (callable alias thread)"],
        "stub": ["child process recording its environment (SimProc)", "scheduler", "clock"],
    }
    expected_probes = ["held_reference_edit", "inplace_edit", "launch_after_cache_fill", "launch_in_alias_thread", "masked_at_launch", "per_command_overlay", "os_environ_mirror", "roundtrip_checked"]
    families = {}

    def warmup(self):
        procworld.warm(extra_traced=())
        XSH = procworld._WARM["XSH"]
        env = XSH.env
        fams = {}
        skipped = 0
        for k, v in env._vars.items():
            if k in EXCLUDE or k.startswith(("LC_", "PROMPT", "XONSH_STYLE", "PTK", "LS_COLORS", "__")) or "PROMPT" in k or v.deprecated:
                skipped += 1
                continue
            f = self._family(v)
            if f is None:
                skipped += 1
                continue
            fams.setdefault(f, []).append(k)
        self.families = {f: sorted(ks) for f, ks in fams.items()}
        self.nvars = sum(len(v) for v in fams.values())
        self.nskipped = skipped

    @staticmethod
    def _family(v):
        names = tuple(getattr(x, "__name__", None) for x in (v.validate, v.convert, v.detype))
        return {
            ("is_bool", "to_bool", "bool_to_str"): "bool",
            ("is_string", "ensure_string", "ensure_string"): "str",
            ("is_env_path", "str_to_env_path", "env_path_to_str"): "env_path",
            ("is_int", "int", "str"): "int",
            ("is_float", "float", "str"): "float",
            ("is_bool_or_none", "to_bool_or_none", "bool_or_none_to_str"): "bool_or_none",
            ("is_string_set", "histcontrol_csv_to_set", "set_to_csv"): "hcset",
            ("is_history_tuple", "to_history_tuple", "history_tuple_to_str"): "histtuple",
            ("is_dynamic_cwd_width", "to_dynamic_cwd_tuple", "dynamic_cwd_tuple_to_str"): "dyncwd",
            ("is_valid_shlvl", "to_shlvl", "str"): "shlvl",
        }.get(names)

    def extra_coverage(self, agg):
        return {"registered_variables_covered": getattr(self, "nvars", 0), "registered_variables_skipped": getattr(self, "nskipped", 0), "families": sorted(self.families)}

    # ------------------------------------------------------------------ generation
    @staticmethod
    def gen_value(rng, fam):
        if fam == "bool":
            return rng.choice((True, False))
        if fam == "str":
            return rng.choice(STRS)
        if fam == "env_path":
            return [rng.choice(PATHS[:-1]) for _ in range(rng.choice((0, 1, 2, 4)))]
        if fam == "int":
            return rng.choice((0, 1, -1, 7, 100, 2**40))
        if fam == "float":
            return rng.choice((0.0, 1.5, 1e-05, 12345.678, -2.0, 1e22))
        if fam == "bool_or_none":
            return rng.choice((True, False, None))
        if fam == "hcset":
            return sorted(rng.sample(HC, rng.choice((0, 1, 2, 4))))
        if fam == "histtuple":
            unit = rng.choice(("commands", "files", "s", "b"))
            return [rng.choice((0, 1, 8128, 2.5) if unit == "s" else (0, 1, 8128)), unit]
        if fam == "dyncwd":
            return [rng.choice((20.0, 33.3, float("inf"))), rng.choice(("c", "%"))]
        if fam == "shlvl":
            return rng.choice((0, 1, 5, 999))
        if fam == "lscolors":
            return {k: list(LSC[k]) for k in sorted(rng.sample(sorted(LSC), rng.choice((0, 1, 3, 5))))}
        raise ValueError(fam)

    def gen_case(self, rng, tier, seed):
        fams = sorted(self.families)
        pool = []
        for _ in range(rng.randint(2, 6)):
            f = rng.choice(fams)
            pool.append([rng.choice(self.families[f]), f, "registered"])
        pool.append([rng.choice(("MY_TOOL_PATH", "EXTRA_LIB_PATH")), "env_path", "pattern"])
        pool.append([rng.choice(("MY_DATA_DIRS", "X_DIRS")), "env_path", "pattern"])
        pool.append([rng.choice(("FOO", "BAR_baz", "lower_case")), "str", "untyped"])
        pool.append([rng.choice(("REG_FLAG", "REG_NUM")), rng.choice(("bool", "int", "float", "env_path", "str")), "register"])
        if rng.random() < 0.45:
            pool.append(["LS_COLORS", "lscolors", "registered"])  # a mapping value with a string cache of its own
        nops = rng.randint(4, 40 if tier == "thorough" else 28)
        ops = []
        depth = 0
        for _ in range(nops):
            kind = rng.choices(("set", "setstr", "del", "inplace", "hold", "held_edit", "enter", "exit", "launch", "launch_kv", "launch_alias", "detype", "read", "toggle_os", "launch_helper", "reassign_held"), (10, 3, 3, 5, 2, 3, 3, 3, 7, 2, 2, 4, 3, 0.7, 4, 1.5))[0]
            var = rng.choice(pool)
            if pool[-1][1] == "lscolors" and rng.random() < 0.12:
                k = rng.choice(sorted(LSC))
                ops.append(["lsc_edit", rng.choice(("set", "set", "del", "pop", "clear")), k, rng.choice(list(LSC.values()))])
                continue
            if kind == "hold" and rng.random() < 0.6:
                # the sequence the statement names: keep a reference, let the cache fill, edit through the reference, launch
                cands = [v for v in pool if v[1] in ("env_path", "hcset")]
                v = rng.choice(cands)
                elem = rng.choice(PATHS[:-1]) if v[1] == "env_path" else rng.choice(HC)
                edit = rng.choice(("append", "insert0")) if v[1] == "env_path" else "add"
                ops += [["set", v[0], self.gen_value(rng, v[1])], ["hold", v[0], edit, elem], ["detype"], ["held_edit", v[0], edit, elem]]
                # ... and, half of the time, store the edited object back (`p = $PATH; p.append(x); $PATH = p`)
                if rng.random() < 0.5:
                    ops.append(["reassign_held", v[0]])
                ops.append([rng.choice(("launch", "launch_helper"))])
                continue
            if kind in ("set", "setstr"):
                ops.append([kind, var[0], self.gen_value(rng, var[1])])
            elif kind == "del":
                ops.append(["del", var[0]])
            elif kind == "reassign_held":
                cands = [v for v in pool if v[1] in ("env_path", "hcset")]
                ops.append([kind, rng.choice(cands)[0]])
            elif kind in ("inplace", "held_edit", "hold"):
                cands = [v for v in pool if v[1] in ("env_path", "hcset")]
                v = rng.choice(cands)
                elem = rng.choice(PATHS[:-1]) if v[1] == "env_path" else rng.choice(HC)
                ops.append([kind, v[0], rng.choice(("append", "insert0", "remove_first", "clear")) if v[1] == "env_path" else rng.choice(("add", "discard")), elem])
            elif kind == "enter":
                if depth < 3:
                    depth += 1
                    vals = {}
                    sv_ = [v for v in pool if v[1] == "str"]
                    if sv_ and rng.random() < 0.3:
                        # an alias-style overlay scope (string variables only): the most recent overlay wins over everything,
                        # for xonsh's own reads and for the mapping a child receives alike
                        for v in rng.sample(sv_, min(len(sv_), rng.choice((1, 2)))):
                            vals[v[0]] = "__MASK__" if rng.random() < 0.3 else self.gen_value(rng, v[1])
                        ops.append(["enter", vals, True])
                    else:
                        for v in rng.sample(pool, rng.choice((1, 2))):
                            vals[v[0]] = "__MASK__" if rng.random() < 0.3 else self.gen_value(rng, v[1])
                        ops.append(["enter", vals])
            elif kind == "exit":
                if depth > 0:
                    depth -= 1
                    ops.append(["exit"])
            elif kind == "launch_kv":
                sv = [v for v in pool if v[1] == "str" and v[0].isidentifier()]
                if sv and rng.random() < 0.45:
                    # the per-command form inside a pipeline: `a | $X=v b | c` - only b may see it
                    nst = rng.choice((2, 3, 3))
                    ops.append(["launch_pipe_kv", rng.choice(sv)[0], rng.choice(("x", "with space", "ü")), nst, rng.randrange(nst)])
                elif sv:
                    ops.append(["launch_kv", rng.choice(sv)[0], rng.choice(("x", "with space", "ü"))])
            else:
                ops.append([kind])
        ops.append(["launch"])
        return {"seed": seed, "pool": pool, "ops": ops, "knobs": {"p": rng.choice((0.0, 0.02)), "policy": "random", "clock_seed": rng.randrange(1 << 30), "max_steps": 500000}}

    def case_valid(self, case):
        d = 0
        for op in case["ops"]:
            if op[0] == "enter":
                d += 1
            elif op[0] == "exit":
                d -= 1
                if d < 0:
                    return False
        return any(op[0].startswith("launch") for op in case["ops"])

    def simplify(self, case):
        for i, op in enumerate(case["ops"]):
            if op[0] == "enter":
                # remove a matching enter/exit pair
                d = 0
                for j in range(i + 1, len(case["ops"])):
                    if case["ops"][j][0] == "enter":
                        d += 1
                    elif case["ops"][j][0] == "exit":
                        if d == 0:
                            c = copy.deepcopy(case)
                            del c["ops"][j]
                            del c["ops"][i]
                            yield c
                            break
                        d -= 1

    # ------------------------------------------------------------------ run
    def run_case(self, case, tape, emit):
        ctx = procworld.RunCtx(case["seed"], case["knobs"], tape, emit)
        XSH = ctx.XSH
        env = XSH.env
        from xonsh.environ import DELETE_VAR, Env, LsColors

        env["XONSH_SUBPROC_RAISE_ERROR"] = False
        ctx.add_stub("envcmd")
        simproc.SCRIPTS["e"] = [["exit", 0]]
        for j_ in range(3):
            simproc.SCRIPTS[f"s{j_}"] = [["exit", 0]]
        fam_of = {v[0]: v[1] for v in case["pool"]}
        for name, fam, how in case["pool"]:
            if how == "register":
                env.register(name, type={"bool": "bool", "int": "int", "float": "float", "env_path": "env_path", "str": "str"}[fam])

        def via_alias(args, stdin=None):
            XSH.subproc_captured_hiddenobject(["envcmd", "e"])
            return 0

        XSH.aliases["viaalias"] = via_alias
        V = []
        probes = {k: 0 for k in self.expected_probes}
        shadow = {}  # name -> typed value (python lists for env_path / hcset)
        scopes = []  # list of {name: value or "__MASK__"}
        held = {}
        stored_back = set()
        pending_held = set()  # edited through a held reference and nothing has touched the environment since
        touched = set()
        stack = contextlib.ExitStack()
        cache_filled = [False]
        mutations = [0]

        def viol(clause, msg, **sig):
            V.append({"clause": clause, "msg": msg, "sig": sig})

        def typed(name, val):
            """The typed object to assign for a shadow value."""
            fam = fam_of[name]
            if fam == "hcset":
                return set(val)
            if fam in ("histtuple", "dyncwd"):
                return tuple(val)
            if fam == "env_path":
                return list(val)
            if fam == "lscolors":
                return {k: tuple(v) for k, v in val.items()}
            return val

        def effective(overlays=True):
            eff = dict(shadow)
            for sc in scopes:
                if not sc.get("__ov__"):
                    eff.update(sc)
            if overlays:
                for sc in scopes:  # overlays shadow every swapped value, the most recent overlay wins
                    if sc.get("__ov__"):
                        eff.update({a: b for a, b in sc.items() if a != "__ov__"})
            return eff

        def expect_str(name, val):
            if fam_of.get(name) == "lscolors":
                # the string form of a FRESH mapping object holding these entries (no cache of its own yet)
                return LsColors({k: tuple(v) for k, v in val.items()}).detype()
            det = env.get_detyper(name)
            if det is None:
                return None
            return det(typed(name, val))

        def launch(how, kv=None):
            n0 = len(simproc.ALL)
            try:
                if how == "main":
                    ctx.exec_src("envcmd e\n")
                elif how == "kv":
                    ctx.exec_src(f"${kv[0]}={kv[1]!r} envcmd e\n")
                else:
                    ctx.exec_src("viaalias\n")
                    probes["launch_in_alias_thread"] += 1
            except Exception as e:  # noqa: BLE001
                viol("no.exception", f"launch ({how}) raised {type(e).__name__}: {e}\n{traceback.format_exc()[-900:]}", exc=type(e).__name__)
                return None
            ctx.quiesce(5.0)
            procs = simproc.ALL[n0:]
            if not procs:
                viol("no.exception", f"launch ({how}) started no child")
                return None
            return procs[-1].env

        def judge(child, how, kv=None):
            # (a command started from inside an alias THREAD inherits the caller's swapped values, not the caller's
            #  alias overlays - as ProcProxyThread documents)
            eff = effective(overlays=how != "alias")
            if kv:
                eff[kv[0]] = kv[1]
                probes["per_command_overlay"] += 1
            if cache_filled[0]:
                probes["launch_after_cache_fill"] += 1
            for name in sorted(touched | ({kv[0]} if kv else set())):
                val = eff.get(name, "__UNSET__")
                got = child.get(name, "__ABSENT__")
                if val == "__MASK__" or val == "__UNSET__":
                    probes["masked_at_launch"] += int(val == "__MASK__")
                    want = "__ABSENT__"
                    if val == "__UNSET__" and got != "__ABSENT__":
                        # unset, but a registered default exists: the child may receive nothing or that default
                        # (reading a lazily computed default stores it)
                        dflt = env.get_default(name)
                        if dflt is not None:
                            try:
                                if callable(dflt):
                                    continue  # computed from other variables when it was first read: not recomputable here
                                dv = dflt
                                det_ = env.get_detyper(name)
                                if det_ is not None and det_(dv) == got:
                                    continue
                            except Exception:  # noqa: BLE001
                                pass
                else:
                    want = expect_str(name, val)
                    if want is None:
                        want = "__ABSENT__"
                ok = got == want
                if not ok and fam_of.get(name) == "hcset" and got != "__ABSENT__" and want != "__ABSENT__":
                    ok = sorted(got.split(",")) == sorted(want.split(","))
                if not ok and got != "__ABSENT__" and want != "__ABSENT__":
                    conv = env.get_converter(name)
                    try:  # two spellings of one value (8128 s / 8128.0 s) are the same mapping for the child
                        ok = conv is not None and conv(got) == conv(want)
                    except Exception:  # noqa: BLE001
                        ok = False
                if not ok:
                    viol(
                        "child.exact",
                        f"after {_fmt(done)} a child launched ({how}) receives ${name}={got!r} but the value at launch time is {val!r} -> {want!r} (family {fam_of.get(name)})",
                        fam=fam_of.get(name),
                        how=how,
                        stale=got != "__ABSENT__" and want != "__ABSENT__",
                        held=name in pending_held,
                    )
                    return
            for a, b in child.items():
                if not isinstance(a, str) or not isinstance(b, str) or "DELETE_VAR" in b or "object at 0x" in b:
                    viol("child.no_garbage", f"child mapping entry {a!r}: {b!r} is not a plain string", fam=fam_of.get(a))
                    return
            for name, b in base0.items():
                if name not in touched and name not in ("XONSH_VERSION",) and child.get(name) != b and not (kv and name == kv[0]):
                    viol("child.exact", f"untouched variable ${name} changed in the child mapping: {b!r} -> {child.get(name)!r} after {_fmt(done)}", fam="untouched")
                    return
            # round trip: a nested xonsh built from the child's mapping sees equal typed values
            if len(done) % 3 == 0:
                probes["roundtrip_checked"] += 1
                try:
                    nested = Env(dict(child))
                    for name, fam, how_ in case["pool"]:
                        if how_ == "register":
                            nested.register(name, type=fam if fam != "str" else "str")
                            if name in child:
                                nested[name] = child[name]
                except Exception as e:  # noqa: BLE001
                    viol("roundtrip", f"building a nested environment from the child mapping raised {type(e).__name__}: {e}", exc=type(e).__name__)
                    return
                for name in sorted(touched):
                    val = eff.get(name, "__UNSET__")
                    if val in ("__MASK__", "__UNSET__") or name not in child:
                        continue
                    try:
                        back = nested[name]
                    except KeyError:
                        viol("roundtrip", f"${name} missing in the nested environment although the child received it")
                        return
                    fam = fam_of[name]
                    b2 = sorted(back) if fam == "hcset" else list(back) if fam in ("env_path", "histtuple", "dyncwd") else {k: list(v) for k, v in back.items()} if fam == "lscolors" else back
                    v2 = sorted(val) if fam == "hcset" else list(val) if fam in ("env_path", "histtuple", "dyncwd") else val
                    if fam == "env_path":
                        b2 = [str(x) for x in b2]
                    if b2 != v2 and not (fam == "str" and False):
                        viol("roundtrip", f"${name} ({fam}): value {val!r} -> {child[name]!r} -> {back!r} does not come back equal", fam=fam)
                        return

        # pool variables that are explicitly set when the session starts (SHLVL, TERM, LANG, ...)
        for name, fam, how in case["pool"]:
            if name in env._d:
                v0 = env._d[name]
                shadow[name] = sorted(v0) if fam == "hcset" else [str(x) for x in v0] if fam == "env_path" else list(v0) if fam in ("histtuple", "dyncwd") else {k: list(v) for k, v in v0.items()} if fam == "lscolors" else v0
        ctx.partial = {"summary": {"ops": len(case["ops"])}, "abort_sig": {"where": "env"}}
        ctx.start()
        done = []
        try:
            base0 = launch("main") or {}
            for op in case["ops"]:
                if V:
                    break
                kind = op[0]
                if kind in ("set", "setstr", "enter", "exit", "read", "toggle_os", "launch", "launch_kv", "launch_pipe_kv", "launch_alias"):
                    pending_held.clear()  # these steps always go through the environment object
                if kind in ("set", "setstr"):
                    _, name, val = op
                    if any(sc.get("__ov__") and name in sc for sc in scopes):
                        continue  # (where an assignment under an overlay of the same name lands is C11's subject)
                    tv = typed(name, val)
                    try:
                        if kind == "setstr":
                            s_ = expect_str(name, val)
                            if s_ is None:
                                continue
                            env[name] = s_
                        else:
                            env[name] = tv
                    except Exception as e:  # noqa: BLE001
                        viol("no.exception", f"setting ${name} = {tv!r} ({kind}) raised {type(e).__name__}: {e}", exc=type(e).__name__, fam=fam_of[name])
                        break
                    if scopes and any(name in sc for sc in scopes):
                        # assignment to a currently scoped key lands in the thread-local layer: innermost scope
                        for sc in reversed(scopes):
                            if name in sc:
                                sc[name] = val
                                break
                    else:
                        shadow[name] = val
                    touched.add(name)
                    mutations[0] += 1
                    cache_filled[0] = False
                elif kind == "del":
                    name = op[1]
                    if any(name in sc for sc in scopes):
                        continue
                    if name in shadow:
                        pending_held.clear()
                        del env[name]
                        del shadow[name]
                        touched.add(name)
                        mutations[0] += 1
                        cache_filled[0] = False
                elif kind in ("inplace", "hold", "held_edit"):
                    _, name, edit, elem = op
                    eff = effective()
                    if eff.get(name, "__UNSET__") in ("__MASK__", "__UNSET__"):
                        continue
                    touched.add(name)
                    if kind == "hold":
                        pending_held.clear()
                        held[name] = env[name]
                        continue
                    if kind == "held_edit":
                        ref = held.get(name)
                        if ref is None:
                            continue
                        # the held object must still be the live value
                        if ref is not env._d.get(name):
                            continue
                        probes["held_reference_edit"] += 1
                        pending_held.add(name)
                    else:
                        pending_held.clear()
                        ref = env[name]
                        probes["inplace_edit"] += 1
                    cur = None
                    for sc in reversed(scopes):
                        if name in sc:
                            cur = sc[name]
                            break
                    if cur is None:
                        cur = shadow[name]
                    cur = list(cur)
                    if fam_of[name] == "env_path":
                        if edit == "append":
                            ref.append(elem)
                            cur.append(elem)
                        elif edit == "insert0":
                            ref.insert(0, elem)
                            cur.insert(0, elem)
                        elif edit == "remove_first":
                            if cur:
                                ref.remove(ref[0])
                                cur.pop(0)
                        elif edit == "clear":
                            del ref[:]
                            cur = []
                    else:
                        if edit == "add":
                            ref.add(elem)
                            cur = sorted(set(cur) | {elem})
                        else:
                            ref.discard(elem)
                            cur = sorted(set(cur) - {elem})
                    placed = False
                    for sc in reversed(scopes):
                        if name in sc:
                            sc[name] = cur
                            placed = True
                            break
                    if not placed:
                        shadow[name] = cur
                    mutations[0] += 1
                elif kind == "enter":
                    vals = op[1]
                    is_ov = len(op) > 2 and op[2]
                    real = {k_: (DELETE_VAR if v_ == "__MASK__" else typed(k_, v_)) for k_, v_ in vals.items()}
                    try:
                        stack.enter_context(env.swap(overlay=real) if is_ov else env.swap(real))
                    except Exception as e:  # noqa: BLE001
                        viol("no.exception", f"swap({real}) raised {type(e).__name__}: {e}", exc=type(e).__name__)
                        break
                    scopes.append(dict(vals, __ov__=True) if is_ov else dict(vals))
                    if is_ov:
                        probes["overlay_scope"] = probes.get("overlay_scope", 0) + 1
                        probes["nested_overlay_scopes"] = probes.get("nested_overlay_scopes", 0) + int(sum(1 for sc in scopes if sc.get("__ov__")) > 1)
                    touched.update(vals)
                    held.clear()
                    mutations[0] += 1
                elif kind == "exit":
                    if scopes:
                        # close the innermost swap only
                        cm_stack = stack._exit_callbacks
                        if cm_stack:
                            cb = cm_stack.pop()
                            cb[1](None, None, None)
                        scopes.pop()
                        held.clear()
                        mutations[0] += 1
                elif kind == "detype":
                    env.detype()
                    cache_filled[0] = True
                elif kind == "read":
                    for name in list(touched)[:3]:
                        env.get(name)
                elif kind == "toggle_os":
                    env["UPDATE_OS_ENVIRON"] = not env.get("UPDATE_OS_ENVIRON")
                elif kind == "launch":
                    child = launch("main")
                    if child is not None:
                        judge(child, "main")
                elif kind == "lsc_edit":
                    _, how_, k_, cols = op
                    name = "LS_COLORS"
                    eff = effective()
                    cur = eff.get(name, "__UNSET__")
                    if not isinstance(cur, dict):
                        continue
                    pending_held.clear()
                    touched.add(name)
                    ref = env[name]
                    cur = {a: list(b) for a, b in cur.items()}
                    try:
                        if how_ == "set":
                            ref[k_] = tuple(cols)
                            cur[k_] = list(cols)
                        elif how_ == "del":
                            if k_ in cur:
                                del ref[k_]
                                del cur[k_]
                        elif how_ == "pop":
                            ref.pop(k_, None)
                            cur.pop(k_, None)
                        else:
                            ref.clear()
                            cur = {}
                    except Exception as e:  # noqa: BLE001
                        viol("no.exception", f"$LS_COLORS {how_} {k_!r} raised {type(e).__name__}: {e}", exc=type(e).__name__)
                        break
                    probes["mapping_inplace_edit"] = probes.get("mapping_inplace_edit", 0) + 1
                    placed = False
                    for sc in reversed(scopes):
                        if name in sc:
                            sc[name] = cur
                            placed = True
                            break
                    if not placed:
                        shadow[name] = cur
                    mutations[0] += 1
                elif kind == "reassign_held":
                    name = op[1]
                    ref = held.get(name)
                    if ref is None or ref is not env._d.get(name) or any(name in sc for sc in scopes):
                        continue
                    pending_held.clear()
                    env[name] = ref  # the documented way to make an edit through a held reference take effect
                    probes["held_reference_reassigned"] = probes.get("held_reference_reassigned", 0) + 1
                    stored_back.add(name)
                elif kind == "launch_helper":
                    # what xonsh's own helpers hand to the children they start (prompt VCS queries, bash/man
                    # completers, source-foreign, which): the detyped mapping, taken without any other access
                    probes["launch_helper"] = probes.get("launch_helper", 0) + 1
                    try:
                        child = dict(env.detype())
                    except Exception as e:  # noqa: BLE001
                        viol("no.exception", f"env.detype() raised {type(e).__name__}: {e}", exc=type(e).__name__)
                        child = None
                    if child is not None:
                        judge(child, "helper")
                elif kind == "launch_alias":
                    child = launch("alias")
                    if child is not None:
                        judge(child, "alias")
                elif kind == "launch_pipe_kv":
                    _, kname, kval, nst, pos = op
                    if any(sc.get("__ov__") and kname in sc for sc in scopes):
                        continue  # (a per-command value under an alias overlay of the same name: precedence is C11's subject)
                    touched.add(kname)
                    src = " | ".join((f"${kname}={kval!r} " if j_ == pos else "") + f"envcmd s{j_}" for j_ in range(nst)) + "\n"
                    n0 = len(simproc.ALL)
                    try:
                        ctx.exec_src(src)
                    except Exception as e:  # noqa: BLE001
                        viol("no.exception", f"{src.strip()} raised {type(e).__name__}: {e}\n{traceback.format_exc()[-900:]}", exc=type(e).__name__)
                        continue
                    ctx.quiesce(5.0)
                    by_stage = {p_.args[1]: p_ for p_ in simproc.ALL[n0:] if len(p_.args) > 1}
                    probes["per_command_overlay_in_pipeline"] = probes.get("per_command_overlay_in_pipeline", 0) + 1
                    for j_ in range(nst):
                        p_ = by_stage.get(f"s{j_}")
                        if p_ is None:
                            viol("no.exception", f"{src.strip()}: stage {j_} was not started")
                            break
                        judge(p_.env, f"pipe{nst}:stage{j_}:prefix_on{pos}", (kname, kval) if j_ == pos else None)
                        if V:
                            break
                elif kind == "launch_kv":
                    if any(sc.get("__ov__") and op[1] in sc for sc in scopes):
                        continue
                    child = launch("kv", (op[1], op[2]))
                    if child is not None:
                        judge(child, "kv", (op[1], op[2]))
                if env.get("UPDATE_OS_ENVIRON") and not V and kind in ("set", "setstr", "del"):
                    probes["os_environ_mirror"] += 1
                    name = op[1]
                    eff = effective()
                    if name in eff and eff[name] != "__MASK__" and not scopes:
                        want = expect_str(name, eff[name])
                        got_os = os.environ.get(name)
                        same = got_os == want
                        if not same and got_os is not None and want is not None:
                            conv = env.get_converter(name)
                            try:
                                same = conv is not None and conv(got_os) == conv(want)
                            except Exception:  # noqa: BLE001
                                same = False
                        if want is not None and not same:
                            viol("osenviron.mirror", f"$UPDATE_OS_ENVIRON is on but os.environ[{name!r}]={os.environ.get(name)!r} after {kind} to {eff[name]!r} (expected {want!r})", fam=fam_of[name])
                done.append(op)
        except BaseException as e:  # noqa: B902
            if isinstance(e, procworld._k.SimExit):
                raise
            viol("no.exception", f"{type(e).__name__}: {e}\n{traceback.format_exc()[-1200:]}", exc=type(e).__name__)
        finally:
            try:
                stack.close()
            except Exception:  # noqa: BLE001
                pass
        ctx.k.stop()
        res = ctx.base_result()
        res["violations"] = V[:3]
        res["probes"].update(probes)
        kinds = tuple(o[0] for o in case["ops"])
        nlaunch = sum(1 for o in case["ops"] if o[0].startswith("launch"))
        res["nontrivial"] = nlaunch >= 1 and mutations[0] >= 3 and any(o[0] in ("inplace", "held_edit", "enter", "del") for o in case["ops"])
        shape = (kinds[:10], tuple(sorted({v[1] for v in case["pool"]})))
        res["states"] = [hashlib.sha1(repr(shape).encode()).hexdigest()[:12]]
        res["key"] = hashlib.sha1(repr((kinds, tuple(v[0] for v in case["pool"]))).encode()).hexdigest()[:16]
        res["summary"] = {"ops": len(case["ops"]), "launches": nlaunch, "pool": [v[0] for v in case["pool"]]}
        if V:
            o, e = ctx.read_tty()
            res["tty_err_tail"] = e[-600:].decode("utf-8", "replace")
        return res


def _fmt(done):
    return "[" + ", ".join(o[0] + (":" + str(o[1]) if len(o) > 1 and isinstance(o[1], str) else "") for o in done[-8:]) + "]"


ENGINE = C10()
