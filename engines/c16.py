"""C16 - `$PWD`, the process directory and the directory stack stay in step.

A history machine over the real `xonsh.dirstack` builtins in a scratch directory tree
(symlinks incl. a loop and a dangling one, a plain file, a directory with a space, a
look-alike of $HOME, two $CDPATH roots).  The run child drops to uid 65534 so that the
kernel enforces `chmod 000`.  Between operations the simulator injects file-system faults
(a directory vanishes, is replaced by a file, loses its search bit, a symlink is
re-targeted, the current directory is removed or renamed underneath the shell) and, inside
an operation, lets `os.chdir` itself fail after xonsh's own checks passed (the check/use
window another process can always hit).  After every step the observable state
(`os.getcwd()`, `$PWD`, `$OLDPWD`, `DIRSTACK`, `dirs -p -l`) is judged against a reference
model of the bash directory-stack builtins evaluated on the state observed before the step.
"""

import copy
import errno
import hashlib
import io
import os
import stat
import sys
import traceback

from simkit import procworld
from simkit.engine import Engine

DIRS = ("/home", "/home/sub", "/home_alt", "/a", "/a/b", "/a/b/c", "/d", "/d/e", "/x", "/x/b", "/x/proj", "/y", "/y/e", "/y/proj", "/sp ace", "/t1", "/t2")
FILES = ("/file", "/x/e")
LINKS = (("/la", "a"), ("/lb", "a/b"), ("/loop", "loop"), ("/dangling", "nowhere"), ("/a/up", ".."), ("/ld", "d"))
ABS_ARGS = ("@/a", "@/a/b", "@/a/b/c", "@/d", "@/d/e", "@/la", "@/lb", "@/la/b", "@/home", "@/home/sub", "@/home_alt", "@/sp ace", "@/x/b", "@/t1", "@/t2", "@/ld/e", "@")
BAD_ABS = ("@/file", "@/loop", "@/dangling", "@/nonexistent", "@/a/nonexistent/..")
REL_ARGS = ("a", "b", "c", "e", "d", "..", "../..", ".", "la", "lb/c", "../d", "proj", "up", "sub", "a/b", "./b")
BAD_REL = ("file", "nonexistent", "loop", "dangling", "c/d/e")
IDX_ARGS = ("+0", "+1", "+2", "+3", "+4", "-0", "-1", "-2", "-3", "-4")
OOR_ARGS = ("+7", "-9", "+21", "-21")
MALFORMED = ("+x", "-", "+", "--1", "+-1", "1", "-1x", "+1.5", "x1")
FS_KINDS = ("rm", "restore", "chmod0", "chmod7", "tofile", "retarget", "rmcwd", "mvcwd")
CHDIR_ERRNOS = (errno.EACCES, errno.ENOENT, errno.EIO, errno.ENOTDIR)
SETTINGS = ("AUTO_PUSHD", "PUSHD_MINUS", "DIRSTACK_SIZE", "CDPATH", "PUSHD_SILENT")


class _OSProxy:
    """`os` as seen by xonsh.dirstack: chdir can be made to fail once (armed by the simulator)."""

    def __init__(self):
        self.arm = None
        self.fired = 0
        self.calls = 0

    def chdir(self, path):
        self.calls += 1
        if self.arm is not None:
            e, self.arm = self.arm, None
            self.fired += 1
            raise OSError(e, os.strerror(e), str(path))
        return os.chdir(path)

    def __getattr__(self, n):
        return getattr(os, n)


class _Shell:
    """Just enough of BaseShell for _fix_cwd."""

    def __init__(self):
        self.msgs = []

    def print_color(self, msg, **kw):
        self.msgs.append(msg)


class C16(Engine):
    property_id = "C16"
    level = "exploration"
    uses_kernel = False
    budgets = {
        "quick": {"runs": 14000, "wall": 80, "min_runs": 300, "min_wall": 30},
        "thorough": {"runs": 600000, "wall": 1500, "min_runs": 600, "min_wall": 90},
    }
    rule = (
        "case = settings ($AUTO_PUSHD, $PUSHD_MINUS, $DIRSTACK_SIZE in {0,1,2,3,5,20}, $CDPATH, $PUSHD_SILENT, initial $OLDPWD set/unset, initial stack of 0-4 entries) x "
        "history of 3-40 steps drawn from cd (none, abs, rel, -, -N, -P, too many args), pushd/popd (dir, +N, -N, none, -n, -q, out-of-range, malformed), dirs (-c -p -v -l +N -N), "
        "setting changes, path-literal cd() blocks (incl. body that raises or itself changes directory), api.os.indir blocks, raw os.chdir + _fix_cwd, explicit pushd/popd round trips, "
        "and file-system faults between steps (rm / restore / chmod 000 / chmod 755 / directory replaced by a file / symlink re-targeted / cwd removed / cwd renamed) plus os.chdir failing "
        "inside a step (EACCES, ENOENT, EIO, ENOTDIR) after xonsh's own checks passed. non-trivial = the stack reached >= 3 entries or a fault hit a step; "
        "distinct = distinct (settings, step kinds and argument classes, fault kinds) histories"
    )
    state_measure = "distinct (step kind, argument class, stack depth bucket, $PUSHD_MINUS, $AUTO_PUSHD, fault kind in effect, outcome) tuples"
    assumptions = [
        "every step is judged against the state observed before it (cwd, $PWD, $OLDPWD, DIRSTACK), so one divergence is reported once and not at every later step",
        "an operation 'failed' when the reference model says it cannot be done: target missing / not a directory / not searchable for this uid, index out of range, malformed or surplus argument, empty stack, or os.chdir raising",
        "'reports an error' is satisfied by a non-zero return code OR a message on stderr",
        "index rules are bash's: dirs lists cwd as entry 0; +N counts from the left, -N from the right, both from zero; $PUSHD_MINUS swaps the two signs; pushd +-N ROTATES the whole list (the help text says so); popd +-N removes one entry; pushd with no argument swaps the top two",
        "forms whose meaning differs between shells are generated but only the invariants are judged: `pushd -n` with an index or without argument, `popd -n +0`, relative arguments to `pushd -n`, an empty-string argument, targets where the logical (`..` folded textually) and the physical resolution differ, $CDPATH lookups whose first match is not a usable directory while a later one is, everything while the current directory has been removed",
        "after an external change (fault, raw chdir, cd() block) the shell's own resynchronisation BaseShell._fix_cwd() is called, as the prompt loop does after every command, and then $PWD must name the cwd again; in 60% of the cases it is also called after every builtin (prompt-loop mode), where it must leave a shell that is in step alone",
        "the round trip `pushd d; popd` is only judged when the stack is not full ($DIRSTACK_SIZE truncation legitimately drops the oldest entry)",
    ]
    components = {
        "real": ["xonsh.dirstack cd / pushd / popd / dirs (alias callables incl. argparse front end) / with_pushd / _change_working_directory / _try_cdpath", "BaseShell._fix_cwd", "built_ins.XonshPathLiteral.cd() context manager", "Env ($PWD, $OLDPWD, $CDPATH as EnvPath, ...)", "real directory tree, real chdir/getcwd, kernel permission checks (uid 65534)"],
        "stub": ["os.chdir failure injection (proxy in xonsh.dirstack only)", "the shell object passed to _fix_cwd (print_color only)", "no prompt loop: steps call the builtins directly"],
    }
    expected_probes = ["stack_ge3", "stack_full_truncated", "pushd_minus", "auto_pushd_push", "chdir_fault_fired", "fs_fault_applied", "target_unsearchable", "stack_entry_vanished", "cwd_removed", "cwd_renamed", "must_fail_ops", "rotation_ops", "cdpath_hit", "symlink_target", "ctx_block", "ctx_body_moves", "roundtrip_judged", "fixcwd_resynced", "prompt_loop_fixcwd"]

    def warmup(self):
        procworld.warm(extra_traced=())
        import xonsh.built_ins as xbi
        import xonsh.dirstack as ds
        import xonsh.shells.base_shell as bs

        self.ds, self.bs, self.xbi = ds, bs, xbi
        self.osp = _OSProxy()
        ds.os = self.osp
        # argparse parsers are built lazily; build them now so every run child starts identical
        ds.pushd.parser, ds.popd.parser, ds.dirs.parser  # noqa: B018

    # ------------------------------------------------------------------ generation
    def _gen_dirarg(self, rng):
        r = rng.random()
        if r < 0.45:
            return rng.choice(ABS_ARGS)
        if r < 0.8:
            return rng.choice(REL_ARGS)
        if r < 0.9:
            return rng.choice(BAD_ABS)
        return rng.choice(BAD_REL)

    def _gen_idx(self, rng):
        r = rng.random()
        if r < 0.75:
            return rng.choice(IDX_ARGS)
        if r < 0.88:
            return rng.choice(OOR_ARGS)
        return rng.choice(MALFORMED)

    def _gen_op(self, rng, depth=0):
        r = rng.random()
        fault = rng.choice(CHDIR_ERRNOS) if rng.random() < 0.06 else None
        if r < 0.22:
            q = rng.random()
            if q < 0.55:
                args = [self._gen_dirarg(rng)]
            elif q < 0.67:
                args = ["-"]
            elif q < 0.82:
                args = [rng.choice(("-1", "-2", "-3", "-0", "-5", "-x", "--1"))]
            elif q < 0.9:
                args = []
            elif q < 0.95:
                args = [self._gen_dirarg(rng), self._gen_dirarg(rng)]
            else:
                args = [""]
            if rng.random() < 0.12:
                args = ["-P"] + args
            return {"k": "cd", "args": args, "fault": fault}
        if r < 0.47:
            q = rng.random()
            if q < 0.5:
                args = [self._gen_dirarg(rng)]
            elif q < 0.88:
                args = [self._gen_idx(rng)]
            else:
                args = []
            if rng.random() < 0.12:
                args = ["-n"] + args
            if rng.random() < 0.2:
                args = ["-q"] + args
            return {"k": "pushd", "args": args, "fault": fault}
        if r < 0.65:
            q = rng.random()
            args = [] if q < 0.5 else [self._gen_idx(rng)]
            if rng.random() < 0.12:
                args = ["-n"] + args
            if rng.random() < 0.2:
                args = ["-q"] + args
            return {"k": "popd", "args": args, "fault": fault}
        if r < 0.72:
            q = rng.random()
            if q < 0.35:
                args = ["-p", "-l"]
            elif q < 0.5:
                args = [rng.choice(("-p", "-v", "-l"))]
            elif q < 0.6:
                args = []
            elif q < 0.67:
                args = ["-c"]
            else:
                args = ["-l", self._gen_idx(rng)]
            return {"k": "dirs", "args": args}
        if r < 0.77:
            var = rng.choice(SETTINGS)
            return {"k": "set", "var": var, "val": self._gen_setting(rng, var)}
        if r < 0.89:
            kind = rng.choice(FS_KINDS)
            node = rng.choice(DIRS + ("/la", "/lb", "/ld")) if kind != "retarget" else rng.choice(("/la", "/lb", "/ld"))
            return {"k": "fs", "what": kind, "node": node, "to": rng.choice(("a", "d", "a/b", "file", "nowhere"))}
        if r < 0.92:
            return {"k": "rawchdir", "to": rng.choice(ABS_ARGS)}
        if r < 0.95 and depth == 0:
            body = [self._gen_op(rng, 1) for _ in range(rng.randint(0, 2))]
            body = [b for b in body if b["k"] in ("cd", "pushd", "popd", "dirs")]
            return {"k": "ctx", "to": rng.choice(ABS_ARGS + BAD_ABS[:2] + REL_ARGS[:6]), "body": body, "raises": rng.random() < 0.3}
        if r < 0.97:
            return {"k": "indir", "to": self._gen_dirarg(rng)}
        return {"k": "roundtrip", "to": self._gen_dirarg(rng)}

    def _gen_setting(self, rng, var):
        if var == "DIRSTACK_SIZE":
            return rng.choice((0, 1, 2, 3, 5, 20))
        if var == "CDPATH":
            return rng.choice(([], ["@/x"], ["@/x", "@/y"], ["@/y", "@/x"], ["@/nonexistent", "@/y"], ["@/a"]))
        return rng.random() < 0.5

    def gen_case(self, rng, tier, seed):
        settings = {
            "AUTO_PUSHD": rng.random() < 0.3,
            "PUSHD_MINUS": rng.random() < 0.35,
            "DIRSTACK_SIZE": rng.choice((20, 20, 20, 5, 3, 2, 1, 0)),
            "CDPATH": self._gen_setting(rng, "CDPATH") if rng.random() < 0.4 else [],
            "PUSHD_SILENT": rng.random() < 0.3,
        }
        n0 = rng.choice((0, 0, 1, 2, 3, 4))
        n = rng.choice((3, 5, 8, 12, 20, 40)) if tier == "quick" else rng.choice((3, 6, 12, 25, 40, 60))
        return {
            "seed": seed,
            "settings": settings,
            "start": rng.choice(("@/a", "@/a/b", "@/d", "@/home", "@", "@/la/b", "@/t1")),
            "oldpwd": rng.choice((None, "@/d", "@/a/b/c")),
            "stack0": [rng.choice(ABS_ARGS[:12]) for _ in range(n0)],
            "prompt_loop": rng.random() < 0.6,
            "ops": [self._gen_op(rng) for _ in range(n)],
        }

    def simplify(self, case):
        for i, op in enumerate(case["ops"]):
            if op.get("fault"):
                c = copy.deepcopy(case)
                c["ops"][i]["fault"] = None
                yield c
            if op["k"] == "ctx" and op["body"]:
                c = copy.deepcopy(case)
                c["ops"][i]["body"] = []
                yield c
        if case["stack0"]:
            c = copy.deepcopy(case)
            c["stack0"] = c["stack0"][:-1]
            yield c
        for k, v in (("AUTO_PUSHD", False), ("PUSHD_MINUS", False), ("CDPATH", []), ("DIRSTACK_SIZE", 20), ("PUSHD_SILENT", True)):
            if case["settings"][k] != v:
                c = copy.deepcopy(case)
                c["settings"][k] = v
                yield c

    # list-valued cases shrink by dropping steps (runner ddmin works on case["ops"])

    # ------------------------------------------------------------------ world
    def _build(self, R):
        os.makedirs(R)
        for d in DIRS:
            os.makedirs(R + d, exist_ok=True)
        for f in FILES:
            with open(R + f, "w") as fp:
                fp.write("x")
        for l, t in LINKS:
            os.symlink(t, R + l)
        os.makedirs(R + "/.gone")

    def _p(self, s):
        if isinstance(s, str) and s.startswith("@"):
            return self.R + s[1:]
        return s

    # ------------------------------------------------------------------ observation
    def _observe(self):
        env = self.env
        try:
            cwd = os.getcwd()
            st = os.stat(".")
            ident = (st.st_dev, st.st_ino)
        except OSError:
            cwd, ident = None, None
        return {
            "cwd": cwd,
            "ident": ident,
            "PWD": env.get("PWD"),
            "OLDPWD": env.get("OLDPWD", None),
            "stack": list(self.ds.DIRSTACK),
        }

    @staticmethod
    def _ident(path):
        try:
            st = os.stat(path)
        except OSError:
            return None
        return (st.st_dev, st.st_ino) if stat.S_ISDIR(st.st_mode) else None

    @staticmethod
    def _usable(path):
        return os.path.isdir(path) and os.access(path, os.X_OK)

    def _insync(self, o):
        if o["cwd"] is None or not isinstance(o["PWD"], str) or not os.path.isabs(o["PWD"]):
            return False
        try:
            st = os.stat(o["PWD"])
        except PermissionError:
            # an ancestor lost its search bit: identity cannot be observed, compare resolved names as _fix_cwd does
            return os.path.realpath(o["PWD"]) == os.path.realpath(o["cwd"])
        except OSError:
            return False
        return (st.st_dev, st.st_ino) == o["ident"]

    # ------------------------------------------------------------------ reference model
    def _signs(self):
        return ("-", "+") if self.env.get("PUSHD_MINUS") else ("+", "-")  # (from-left sign, from-right sign)

    def _index(self, arg, n):
        """Index into the dirs list of length n selected by +N/-N, 'bad' (malformed) or 'oor'."""
        left, right = self._signs()
        if len(arg) < 2 or arg[0] not in "+-":
            return "bad"
        body = arg[1:]
        if not (body.isascii() and body.isdigit()):
            return "bad"
        num = int(body)
        if num > n - 1:
            return "oor"
        return num if arg[0] == left else n - 1 - num

    def _target(self, pre, d):
        """(logical absolute path, usable) for a chdir to d from the pre state; None if ambiguous."""
        logical = os.path.normpath(os.path.join(pre["PWD"], d))
        phys = os.path.join(pre["cwd"], d)
        il, ip = self._ident(logical), self._ident(phys)
        if il != ip:
            return None
        if il is not None and os.path.realpath(logical) != logical:
            self.probes["symlink_target"] += 1
        return logical, (il is not None and os.access(logical, os.X_OK)), il

    def _trunc(self, stack):
        size = self.env.get("DIRSTACK_SIZE")
        return stack[:size] if len(stack) > size else stack

    def _expect(self, pre, op):
        """-> ("fail", why) | ("ok", target_ident_or_None, new_stack_or_None, moved) | ("any", why)"""
        k, args = op["k"], [self._p(a) for a in op["args"]]
        env = self.env
        stack = pre["stack"]
        if not self._insync(pre):
            return ("any", "pre-state out of sync")
        fault = op.get("fault")
        L = [pre["PWD"]] + stack
        n = len(L)
        if k == "cd":
            follow = False
            if args and args[0] == "-P":
                follow, args = True, args[1:]
            if len(args) > 1:
                return ("fail", "too many arguments")
            if not args:
                d = env.get("HOME")
            else:
                d = args[0]
                if d == "":
                    return ("any", "empty argument")
                if os.path.isdir(d):
                    pass
                elif d == "-":
                    if pre["OLDPWD"] is None:
                        return ("fail", "no previous directory")
                    d = pre["OLDPWD"]
                elif d.startswith("-"):
                    body = d[1:]
                    if not (body.isascii() and body.isdigit()):
                        return ("fail", "malformed -N")
                    num = int(body)
                    if num == 0:
                        return ("ok", pre["ident"], stack, False)
                    if num > len(stack):
                        return ("fail", "index out of range")
                    d = stack[num - 1]
                    self.probes["cd_minus_n"] = self.probes.get("cd_minus_n", 0) + 1
                elif not os.path.isabs(d):
                    cands = [os.path.join(c, d) for c in env.get("CDPATH")]
                    hits = [c for c in cands if os.path.lexists(c)]
                    if hits:
                        if not self._usable(hits[0]) and any(self._usable(h) for h in hits[1:]):
                            return ("any", "CDPATH first match unusable, later usable")
                        d = hits[0]
                        self.probes["cdpath_hit"] += 1
            t = self._target(pre, d)
            if t is None:
                return ("any", "logical and physical target differ")
            logical, usable, ident = t
            if not usable:
                self.probes["target_unsearchable"] += ident is not None
                return ("fail", "target not a usable directory")
            if follow:
                ident = self._ident(os.path.realpath(logical))
            if fault:
                return ("fail", "os.chdir failed")
            new = stack
            if env.get("AUTO_PUSHD"):
                # a directory that cannot be reached any more need not be remembered
                new = self._trunc([pre["PWD"]] + stack) if self._usable(pre["PWD"]) else None
                self.probes["auto_pushd_push"] += 1
            return ("ok", ident, new, True)
        if k == "pushd":
            nocd = "-n" in args
            swap = False
            pos = [a for a in args if a not in ("-n", "-q")]
            if not pos:
                if nocd:
                    return ("any", "pushd -n without argument")
                if not stack:
                    return ("fail", "empty stack")
                j = 1
                swap = True
            else:
                a = pos[0]
                if a == "":
                    return ("any", "empty argument")
                if os.path.isdir(a):
                    if nocd:
                        if not os.path.isabs(a):
                            return ("any", "pushd -n relative")
                        return ("ok", pre["ident"], self._trunc([a] + stack), False)
                    t = self._target(pre, a)
                    if t is None:
                        return ("any", "logical and physical target differ")
                    logical, usable, ident = t
                    if not usable:
                        self.probes["target_unsearchable"] += 1
                        return ("fail", "target not searchable")
                    if fault:
                        return ("fail", "os.chdir failed")
                    return ("ok", ident, self._trunc([pre["PWD"]] + stack), True)
                j = self._index(a, n)
                if j in ("bad", "oor"):
                    return ("fail", "malformed argument" if j == "bad" else "index out of range")
                if nocd:
                    return ("any", "pushd -n +N")
                if j == 0:
                    return ("ok", pre["ident"], self._trunc(stack), False)
            self.probes["rotation_ops"] += 1
            tgt = L[j]
            if not os.path.isabs(tgt):
                return ("any", "relative stack entry")
            if not self._usable(tgt):
                self.probes["stack_entry_vanished"] += 1
                return ("fail", "selected entry is not a usable directory")
            if fault:
                return ("fail", "os.chdir failed")
            rot = L[j:] + L[:j]
            new = [L[0]] + L[2:] if swap else rot[1:]  # no argument: exchange the top two
            if len(new) > env.get("DIRSTACK_SIZE"):
                return ("ok", self._ident(tgt), None, True)
            return ("ok", self._ident(tgt), new, True)
        if k == "popd":
            nocd = "-n" in args
            pos = [a for a in args if a not in ("-n", "-q")]
            if not pos:
                if not stack:
                    return ("fail", "empty stack")
                j = 0
            else:
                j = self._index(pos[0], n)
                if j == "bad":
                    return ("fail", "malformed argument")
                if not stack:
                    return ("fail", "empty stack")
                if j == "oor":
                    return ("fail", "index out of range")
            if j == 0:
                if nocd:
                    if pos:
                        return ("any", "popd -n +0")
                    return ("ok", pre["ident"], stack[1:], False)
                tgt = stack[0]
                if not os.path.isabs(tgt):
                    return ("any", "relative stack entry")
                if not self._usable(tgt):
                    self.probes["stack_entry_vanished"] += 1
                    return ("fail", "new top is not a usable directory")
                if fault:
                    return ("fail", "os.chdir failed")
                return ("ok", self._ident(tgt), stack[1:], True)
            return ("ok", pre["ident"], stack[: j - 1] + stack[j:], False)
        if k == "dirs":
            pos = [a for a in args if not a.startswith("-") or a[1:2].isdigit() or a in ("-", "--1", "-x")]
            pos = [a for a in args if a not in ("-c", "-p", "-v", "-l")]
            if "-c" in args:
                return ("ok", pre["ident"], [], False)
            if pos:
                j = self._index(pos[0], n)
                if j in ("bad", "oor"):
                    return ("fail", "bad index")
            return ("ok", pre["ident"], stack, False)
        raise AssertionError(k)

    # ------------------------------------------------------------------ step execution
    def _call(self, k, args):
        """Run one builtin; -> (rc, out, err_text, exc)"""
        ds = self.ds
        fn = {"cd": ds.cd, "pushd": ds.pushd, "popd": ds.popd, "dirs": ds.dirs}[k]
        cap = io.StringIO()
        saved = sys.stderr, sys.stdout
        sys.stderr = cap
        sys.stdout = capo = io.StringIO()
        rc, out, err, exc = 0, "", "", None
        try:
            r = fn(list(args))
            if isinstance(r, tuple):
                r = tuple(r) + (None,) * (3 - len(r))
                out, err, rc = r[0] or "", r[1] or "", r[2] or 0
            elif isinstance(r, int):
                rc = r
            elif isinstance(r, str):
                out = r
        except SystemExit as e:
            rc = e.code if isinstance(e.code, int) else 1
            if rc == 0:
                rc = 0
        except Exception as e:  # noqa: BLE001
            exc = f"{type(e).__name__}: {e}\n{traceback.format_exc()[-700:]}"
        finally:
            sys.stderr, sys.stdout = saved
        return rc, out + capo.getvalue(), err + cap.getvalue(), exc

    def _viol(self, clause, msg, **sig):
        self.V.append({"clause": clause, "msg": f"step {self.step} {self.cur_op}: {msg}", "sig": sig})

    def _argclass(self, op):
        pos = [a for a in op.get("args", []) if a not in ("-n", "-q", "-P", "-c", "-p", "-v", "-l")]
        if not pos:
            return "none"
        a = pos[0]
        if len(pos) > 1:
            return "many"
        if a[:1] in "+-" and a[1:].isdigit():
            return "index"
        if a == "-":
            return "dash"
        if a in MALFORMED or a in ("-x", "--1"):
            return "malformed"
        return "dir"

    def _do_builtin(self, op):
        """One cd/pushd/popd/dirs step, judged."""
        k = op["k"]
        args = [self._p(a) for a in op["args"]]
        pre = self._observe()
        if pre["cwd"] is None:
            exp = ("any", "cwd removed")
        else:
            try:
                exp = self._expect(pre, op)
            except OSError as e:
                exp = ("any", f"model could not stat: {e}")
        osp = self.osp
        osp.arm = op.get("fault")
        fired0 = osp.fired
        rc, out, err, exc = self._call(k, args)
        osp.arm = None
        fault_fired = osp.fired > fired0
        if fault_fired:
            self.probes["chdir_fault_fired"] += 1
            self.faults["chdir_" + errno.errorcode[op["fault"]]] = self.faults.get("chdir_" + errno.errorcode[op["fault"]], 0) + 1
        post = self._observe()
        ac = self._argclass(op)
        flags = {"n": "-n" in op["args"], "minus": bool(self.env.get("PUSHD_MINUS")), "auto": bool(self.env.get("AUTO_PUSHD"))}
        depth = min(len(pre["stack"]), 3)
        self.states.add((k, ac, depth, flags["minus"], flags["auto"], flags["n"], exp[0], fault_fired, self.fs_dirty))
        self.trace.append((k, tuple(op["args"]), exp[0], rc, post["PWD"] and post["PWD"][len(self.R) :], len(post["stack"])))
        base = {"op": k, "arg": ac, "nocd": flags["n"]}
        if exc is not None:
            self._viol("never.raises", f"raised {exc}", **base, exc=exc.split(":")[0])
            return
        # invariants ---------------------------------------------------------
        if post["cwd"] is not None and not self._insync(post) and (pre["cwd"] is None or self._insync(pre)):
            self._viol("pwd.is_cwd", f"$PWD={post['PWD']!r} does not name the working directory {post['cwd']!r}", **base, fault=bool(fault_fired))
        size = self.env.get("DIRSTACK_SIZE")
        if k == "pushd" or (k == "cd" and flags["auto"]):
            if len(post["stack"]) > size and len(post["stack"]) > len(pre["stack"]):
                self._viol("stack.bound", f"{len(post['stack'])} entries on the stack with $DIRSTACK_SIZE={size}", **base)
            if len(pre["stack"]) + 1 > size and exp[0] == "ok":
                self.probes["stack_full_truncated"] += 1
        if len(post["stack"]) >= 3:
            self.probes["stack_ge3"] += 1
            self.nontrivial = True
        if exp[0] == "any":
            self.unjudged += 1
            return
        self.judged += 1
        changed = [f for f in ("ident", "PWD", "OLDPWD", "stack") if pre[f] != post[f]]
        reported = rc != 0 or bool(err.strip())
        why = "chdir_fault" if fault_fired else exp[1] if exp[0] == "fail" else None
        if exp[0] == "fail":
            self.probes["must_fail_ops"] += 1
            if fault_fired or self.fs_dirty:
                self.nontrivial = True
            if changed:
                self._viol(
                    "fail.changes_nothing",
                    f"cannot succeed ({exp[1]}) but changed {changed}: before PWD={pre['PWD']!r} OLDPWD={pre['OLDPWD']!r} stack={pre['stack']} -> after PWD={post['PWD']!r} OLDPWD={post['OLDPWD']!r} stack={post['stack']} (rc={rc}, err={err.strip()[:120]!r})",
                    **base,
                    why=why,
                    changed=",".join(changed),
                )
            elif not reported:
                self._viol("fail.reports", f"cannot succeed ({exp[1]}) but reported nothing: rc={rc} err={err!r} out={out[:80]!r}", **base, why=why)
            return
        _, ident, new_stack, moved = exp
        if rc != 0:
            self._viol("ok.succeeds", f"a valid operation failed with rc={rc} err={err.strip()[:160]!r}; PWD={pre['PWD']!r} stack={pre['stack']}", **base)
            return
        if post["ident"] != ident:
            self._viol("stack.top" if k != "cd" else "cd.target", f"working directory is {post['cwd']!r}, expected the directory selected by the operation (before: PWD={pre['PWD']!r} stack={pre['stack']})", **base)
            return
        if moved:
            if post["PWD"] != pre["PWD"] and post["OLDPWD"] != pre["PWD"]:
                self._viol("oldpwd.prev", f"$OLDPWD={post['OLDPWD']!r} after leaving {pre['PWD']!r}", **base)
            elif post["PWD"] == pre["PWD"] and post["OLDPWD"] != pre["PWD"]:
                # (a successful change to the directory the shell is already in is still a change: the directory it was in
                #  just before - the same one - is the previous directory, as in bash / POSIX cd)
                self._viol("oldpwd.prev", f"$OLDPWD={post['OLDPWD']!r} after a successful change to the same directory {pre['PWD']!r} (it was {pre['OLDPWD']!r} before)", **base, same_dir=True)
        elif post["OLDPWD"] != pre["OLDPWD"] or post["PWD"] != pre["PWD"]:
            self._viol("oldpwd.prev", f"an operation that does not change directory altered $PWD/$OLDPWD: {pre['PWD']!r},{pre['OLDPWD']!r} -> {post['PWD']!r},{post['OLDPWD']!r}", **base)
        if new_stack is not None and post["stack"] != new_stack:
            clause = "stack.model"
            if k == "pushd" and ac in ("index", "none") and sorted(post["stack"] + [post["PWD"]]) == sorted(pre["stack"] + [pre["PWD"]]):
                clause = "stack.rotation"
            elif k == "popd":
                clause = "stack.removal"
            self._viol(clause, f"stack is {post['stack']}, the documented rule gives {new_stack} (before: PWD={pre['PWD']!r} stack={pre['stack']}, $PUSHD_MINUS={flags['minus']})", **base, minus=flags["minus"])
        if k == "dirs":
            self._judge_dirs(op, args, pre, out)
        if self.prompt_loop and not self.V:
            # the prompt loop calls _fix_cwd() after every command: on a shell that is in step it must be a no-op
            self._fix_and_judge("cmd:" + k)

    def _judge_dirs(self, op, args, pre, out):
        L = [pre["PWD"]] + pre["stack"]
        pos = [a for a in args if a not in ("-c", "-p", "-v", "-l")]
        if "-c" in args:
            return
        home = os.path.expanduser("~")

        def unhome(s):
            if s == "~" or s.startswith("~/"):
                return home + s[1:]
            return s

        long = "-l" in args
        if pos:
            j = self._index(pos[0], len(L))
            got = out.rstrip("\n")
            if not long:
                got = unhome(got)
            if got != L[j]:
                self._viol("dirs.reflects", f"`dirs {' '.join(op['args'])}` printed {out!r}, entry {j} of {L} expected", op="dirs", arg="index", minus=bool(self.env.get("PUSHD_MINUS")))
            return
        if "-v" in args:
            lines = [ln.strip().split(" ", 1)[1] if " " in ln.strip() else ln for ln in out.rstrip("\n").split("\n")]
        elif "-p" in args:
            lines = out.rstrip("\n").split("\n")
        else:
            if any(" " in e for e in L):
                return  # space-separated listing is ambiguous with spaces in names
            lines = out.rstrip("\n").split(" ")
        if not long:
            lines = [unhome(x) for x in lines]
        if lines != L:
            self._viol("dirs.reflects", f"`dirs {' '.join(op['args'])}` printed {lines}, the list is {L}", op="dirs", arg="list", long=long)

    # FS faults ---------------------------------------------------------------
    def _fs(self, op):
        R = self.R
        node = R + op["node"]
        what = op["what"]
        gone = R + "/.gone/" + op["node"].strip("/").replace("/", "__")
        done = False
        try:
            if what == "rm":
                if os.path.lexists(node) and not os.path.lexists(gone):
                    os.rename(node, gone)
                    done = True
            elif what == "tofile":
                if os.path.isdir(node) and not os.path.islink(node) and not os.path.lexists(gone):
                    os.rename(node, gone)
                    with open(node, "w") as fp:
                        fp.write("f")
                    done = True
            elif what == "restore":
                if os.path.lexists(gone) and os.path.isdir(os.path.dirname(node)):
                    if os.path.isfile(node) and not os.path.islink(node):
                        os.unlink(node)
                    if not os.path.lexists(node):
                        os.rename(gone, node)
                        done = True
            elif what == "chmod0":
                if os.path.isdir(node) and not os.path.islink(node):
                    os.chmod(node, 0)
                    done = True
            elif what == "chmod7":
                if os.path.isdir(node) and not os.path.islink(node):
                    os.chmod(node, 0o755)
                    done = True
            elif what == "retarget":
                if os.path.islink(node):
                    os.unlink(node)
                    os.symlink(op["to"], node)
                    done = True
            elif what == "rmcwd":
                cwd = os.getcwd()
                if cwd.startswith(R + "/") and not os.listdir(cwd):
                    os.rmdir(cwd)
                    done = True
                    self.probes["cwd_removed"] += 1
            elif what == "mvcwd":
                cwd = os.getcwd()
                rel = cwd[len(R) :]
                g2 = R + "/.gone/" + rel.strip("/").replace("/", "__")
                if cwd.startswith(R + "/") and rel in DIRS and not os.path.lexists(g2):
                    os.rename(cwd, g2)
                    done = True
                    self.probes["cwd_renamed"] += 1
        except OSError:
            pass
        if done:
            self.probes["fs_fault_applied"] += 1
            self.faults["fs_" + what] = self.faults.get("fs_" + what, 0) + 1
            self.fs_dirty = True
        self.trace.append(("fs", what, op["node"], done))
        self._fix_and_judge("fs:" + what)

    def _fix_and_judge(self, after):
        if after.startswith("cmd:"):
            self.probes["prompt_loop_fixcwd"] += 1
        pre = self._observe()
        sh = _Shell()
        try:
            self.bs.BaseShell._fix_cwd(sh)
        except Exception as e:  # noqa: BLE001
            self._viol("fixcwd.resyncs", f"_fix_cwd raised {type(e).__name__}: {e}", after=after.split(":")[0])
            return
        post = self._observe()
        if post["cwd"] is None:
            return
        if after.startswith("cmd:") and self._insync(pre) and (post["PWD"], post["OLDPWD"]) != (pre["PWD"], pre["OLDPWD"]):
            self._viol(
                "fixcwd.noop",
                f"$PWD named the working directory after `{after[4:]}`, yet the prompt loop's _fix_cwd() rewrote $PWD {pre['PWD']!r} -> {post['PWD']!r} and $OLDPWD {pre['OLDPWD']!r} -> {post['OLDPWD']!r} (cwd {post['cwd']!r})",
                after="cmd",
                symlinked=os.path.realpath(pre["PWD"]) != pre["PWD"],
            )
            return
        if not self._insync(post):
            self._viol("fixcwd.resyncs", f"after {after} and _fix_cwd(): $PWD={post['PWD']!r} but the working directory is {post['cwd']!r}", after=after.split(":")[0])
        elif not self._insync(pre):
            self.probes["fixcwd_resynced"] += 1
            if post["OLDPWD"] != pre["PWD"]:
                self._viol("oldpwd.prev", f"_fix_cwd() moved $PWD {pre['PWD']!r} -> {post['PWD']!r} but $OLDPWD={post['OLDPWD']!r}", op="fixcwd", arg="none", nocd=False)
        if post["stack"] != pre["stack"]:
            self._viol("fixcwd.resyncs", "_fix_cwd changed the directory stack", after=after.split(":")[0])

    def _ctx(self, op):
        self.probes["ctx_block"] += 1
        pre = self._observe()
        path = self.xbi.XonshPathLiteral(self._p(op["to"]))
        want_inside = self._ident(str(path))  # resolved the way chdir will resolve it (relative to the cwd, no detour through ancestors)
        entered = False
        exc = None
        try:
            with path.cd():
                entered = True
                inside = self._observe()
                if inside["ident"] != want_inside and pre["cwd"] is not None:
                    self._viol("ctx.restores", f"inside `with p'{path}'.cd()` the working directory is {inside['cwd']!r}", op="ctx", phase="enter")
                for b in op["body"]:
                    self.cur_op = f"ctx-body {b['k']} {b['args']}"
                    r = self._call(b["k"], [self._p(a) for a in b["args"]])
                    self.trace.append(("body", b["k"], tuple(b["args"]), r[0]))
                if self._observe()["ident"] != inside["ident"]:
                    self.probes["ctx_body_moves"] += 1
                if op["raises"]:
                    raise KeyError("body")
        except KeyError:
            pass
        except OSError as e:
            exc = e
        self.cur_op = f"ctx {op['to']}"
        post = self._observe()
        self.trace.append(("ctx", op["to"], entered, type(exc).__name__ if exc else None))
        if pre["cwd"] is None:
            return
        old_ok = self._ident(pre["cwd"]) == pre["ident"]
        if not entered:
            if post["ident"] != pre["ident"]:
                self._viol("ctx.restores", f"cd() block could not be entered ({exc}) but the working directory moved to {post['cwd']!r}", op="ctx", phase="enter-failed")
        elif old_ok and post["ident"] != pre["ident"]:
            self._viol("ctx.restores", f"after the cd() block the working directory is {post['cwd']!r}, it was {pre['cwd']!r} (exception: {exc})", op="ctx", phase="exit", raised=bool(op["raises"]))
        self._fix_and_judge("ctx")

    def _indir(self, op):
        pre = self._observe()
        if pre["cwd"] is None or not self._insync(pre):
            return
        d = self._p(op["to"])
        size = self.env.get("DIRSTACK_SIZE")
        err = None
        cap = io.StringIO()
        saved = sys.stderr
        sys.stderr = cap
        try:
            with self.ds.with_pushd(d):
                pass
        except RuntimeError as e:
            err = e
        except Exception as e:  # noqa: BLE001
            self._viol("never.raises", f"indir({d!r}) raised {type(e).__name__}: {e}", op="indir", arg="dir", nocd=False)
            return
        finally:
            sys.stderr = saved
        post = self._observe()
        self.trace.append(("indir", op["to"], bool(err)))
        if len(pre["stack"]) + 1 > size or not self._usable(pre["PWD"]):
            return
        t = self._target(pre, d) if os.path.isdir(d) else ("", False, None)
        if t is None:
            return
        if (post["ident"], post["PWD"], post["stack"]) != (pre["ident"], pre["PWD"], pre["stack"]):
            self._viol(
                "roundtrip",
                f"indir({d!r}) [{'failed: ' + str(err) if err else 'ok'}] left PWD={post['PWD']!r} stack={post['stack']}; before PWD={pre['PWD']!r} stack={pre['stack']}; stderr={cap.getvalue()[:100]!r}",
                op="indir",
                usable=bool(t[1]),
            )
        elif t[1] and err is None:
            self.probes["roundtrip_judged"] += 1

    def _roundtrip(self, op):
        pre = self._observe()
        if pre["cwd"] is None or not self._insync(pre):
            return
        d = self._p(op["to"])
        if not os.path.isdir(d):
            return
        t = self._target(pre, d)
        size = self.env.get("DIRSTACK_SIZE")
        if t is None or not t[1] or len(pre["stack"]) + 1 > size or not self._usable(pre["PWD"]):
            return
        r1 = self._call("pushd", [d])
        mid = self._observe()
        r2 = self._call("popd", [])
        post = self._observe()
        self.trace.append(("roundtrip", op["to"], r1[0], r2[0]))
        self.probes["roundtrip_judged"] += 1
        if mid["ident"] != t[2]:
            self._viol("stack.top", f"pushd {d!r} left the working directory at {mid['cwd']!r}", op="pushd", arg="dir", nocd=False)
        if (post["ident"], post["PWD"], post["stack"]) != (pre["ident"], pre["PWD"], pre["stack"]):
            self._viol("roundtrip", f"pushd {d!r}; popd left PWD={post['PWD']!r} stack={post['stack']}; before PWD={pre['PWD']!r} stack={pre['stack']}", op="roundtrip", usable=True)

    # ------------------------------------------------------------------ run
    def run_case(self, case, tape, emit):
        scratch = procworld.scratch_for(os.getpid())
        os.makedirs(scratch, exist_ok=True)
        os.chmod(scratch, 0o755)
        for p in (os.path.dirname(scratch),):
            try:
                os.chmod(p, 0o755)
            except OSError:
                pass
        top = os.path.join(scratch, "w")
        os.makedirs(top)
        os.chown(top, 65534, 65534)
        fd2 = os.open(os.path.join(scratch, "stderr"), os.O_WRONLY | os.O_CREAT | os.O_APPEND, 0o666)
        os.dup2(fd2, 2)
        os.dup2(fd2, 1)
        if os.getuid() == 0:
            os.setgroups([])
            os.setgid(65534)
            os.setuid(65534)
        self.R = R = os.path.join(top, "t")
        self._build(R)
        XSH = procworld._WARM["XSH"]
        self.env = env = XSH.env
        ds = self.ds
        os.environ["HOME"] = R + "/home"
        env["HOME"] = R + "/home"
        for k, v in case["settings"].items():
            env[k] = [self._p(x) for x in v] if k == "CDPATH" else v
        start = self._p(case["start"])
        os.chdir(start)
        env["PWD"] = start
        if case["oldpwd"] is None:
            env.pop("OLDPWD", None)
        else:
            env["OLDPWD"] = self._p(case["oldpwd"])
        ds.DIRSTACK = [self._p(x) for x in case["stack0"]]
        self.V = []
        self.probes = {k: 0 for k in self.expected_probes}
        self.probes["pushd_minus"] = int(bool(case["settings"]["PUSHD_MINUS"]))
        self.faults = {}
        self.states = set()
        self.trace = []
        self.nontrivial = False
        self.judged = self.unjudged = 0
        self.fs_dirty = False
        self.prompt_loop = case.get("prompt_loop", False)
        self.step = -1
        for i, op in enumerate(case["ops"]):
            self.step = i
            k = op["k"]
            self.cur_op = f"{k} {op.get('args', op.get('to', op.get('what', '')))}" + (f" [os.chdir fails {errno.errorcode[op['fault']]}]" if op.get("fault") else "")
            try:
                if k in ("cd", "pushd", "popd", "dirs"):
                    self._do_builtin(op)
                elif k == "set":
                    env[op["var"]] = [self._p(x) for x in op["val"]] if op["var"] == "CDPATH" else op["val"]
                    if op["var"] == "PUSHD_MINUS" and op["val"]:
                        self.probes["pushd_minus"] += 1
                    self.trace.append(("set", op["var"], repr(op["val"])))
                elif k == "fs":
                    self._fs(op)
                elif k == "rawchdir":
                    try:
                        os.chdir(self._p(op["to"]))
                    except OSError:
                        pass
                    self.trace.append(("rawchdir", op["to"]))
                    self._fix_and_judge("rawchdir")
                elif k == "ctx":
                    self._ctx(op)
                elif k == "indir":
                    self._indir(op)
                elif k == "roundtrip":
                    self._roundtrip(op)
            except Exception:  # noqa: BLE001
                return {"harness_error": f"step {i} {op}: {traceback.format_exc()[-1500:]}"}
            if len(self.V) >= 4:
                break
        digest = hashlib.blake2b(repr(self.trace).encode(), digest_size=8).hexdigest()
        shape = (tuple(sorted((k, repr(v)) for k, v in case["settings"].items())), tuple((o["k"], self._argclass(o)) for o in case["ops"]))
        seen = set()
        V = []
        for v in self.V:
            key = (v["clause"], repr(sorted(v["sig"].items())))
            if key not in seen:
                seen.add(key)
                V.append(v)
        return {
            "violations": V[:4],
            "digest": digest,
            "tape": None,
            "stats": {"steps": len(case["ops"]), "judged_steps": self.judged, "unjudged_steps": self.unjudged},
            "faults": self.faults,
            "probes": self.probes,
            "nontrivial": self.nontrivial,
            "states": [hashlib.sha1(repr(s).encode()).hexdigest()[:12] for s in self.states],
            "key": hashlib.sha1(repr(shape).encode()).hexdigest()[:16],
            "summary": {"steps": len(case["ops"]), "judged": self.judged},
        }

    def extra_coverage(self, agg):
        return {"steps": int(agg["stats"].get("steps", 0)), "judged_steps": int(agg["stats"].get("judged_steps", 0)), "unjudged_steps": int(agg["stats"].get("unjudged_steps", 0))}


ENGINE = C16()
