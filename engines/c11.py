"""C11 - scoped environment changes are exactly undone and never leak across threads.

1-3 caller threads (main + threads created the way PopenThread/ProcProxyThread do it:
get_swapped_values() in the parent, set_swapped_values() first thing in the child) run seeded
programs of nested env.swap(...) scopes (values, DELETE_VAR masks, overlays), exits by
fall-through and by exception, per-command overlays (the real SubprocSpec.prep_env_subproc),
sets of thread-private variables, and probes of every read path, under the SimKernel with line
pre-emption in xonsh/environ.py.  A per-thread scope-stack model decides what each probe may see.
"""

import copy
import hashlib
import threading
import traceback

from simkit import kernel as _k
from simkit import procworld
from simkit.engine import Engine

KEYS = ("K0", "K1", "K2", "MYPATH")
MASK = "__MASK__"
ABSENT = "__ABSENT__"


class _BoomBase(BaseException):
    """An exit that is not an Exception (as SystemExit and KeyboardInterrupt are not)."""


class _Boom(Exception):
    pass


class C11(Engine):
    property_id = "C11"
    level = "exploration"
    budgets = {
        "quick": {"runs": 1500, "wall": 90, "min_runs": 200, "min_wall": 30},
        "thorough": {"runs": 300000, "wall": 1500, "min_runs": 500, "min_wall": 90},
    }
    rule = (
        "case = 1-3 threads x per-thread program (nested swap scopes depth<=4 over 4 shared keys with values / DELETE_VAR masks / overlays, exits by return or "
        "exception, per-command overlays through SubprocSpec.prep_env_subproc, sets/deletes of thread-private variables, probes of [] / in / get / iteration / "
        "detype() / detype_all() / child mapping, thread spawn with inherited swapped values) x schedule knobs (line pre-emption in environ.py). "
        "non-trivial = >=2 threads alive at once or nesting depth >=2, and >=1 pre-emption; distinct = distinct (program shapes, schedule digest)"
    )
    state_measure = "distinct (thread count, per-thread op-kind sequences prefix, max nesting)"
    assumptions = [
        "a key swapped by one thread is never assigned globally by another thread during the run (not specified by the statement)",
        "inside a scope the scoped key itself is not assigned directly (the statement grants persistence to *other* variables)",
        "worker threads inherit the spawning thread's swapped values but not its alias overlays (as PopenThread/ProcProxyThread do)",
    ]
    components = {
        "real": ["environ.Env (swap, _capture_for_swap, _set_item, _del_item, __getitem__, __contains__, __iter__, detype, detype_all, get/set_swapped_values)", "environ.InternalEnvironDict", "procs.specs.SubprocSpec.prep_env_subproc", "real threads with real threading.local"],
        "stub": ["scheduler (which thread runs at which source line)", "clock"],
    }
    expected_probes = ["probe_in_scope", "probe_masked", "probe_while_other_thread_in_scope", "exit_by_exception", "nested_same_key", "launch_probe", "inherited_swaps"]

    def warmup(self):
        # (the per-variable type look-ups are pure and hot: thousands of lines per detype(); not pre-empted)
        procworld.warm(
            extra_traced=("xonsh.environ",),
            skip_names=("_find_var_pattern", "_find_var_pattern_name", "get_detyper", "get_validator", "get_converter", "get_default", "rawkeys", "match", "to_var", "<genexpr>", "<setcomp>", "<dictcomp>", "<listcomp>", "ensure_string", "is_callable_default", "maps", "_local", "_overlay_stack"),
        )

    # ------------------------------------------------------------------ generation
    def gen_ops(self, rng, tid, depth, budget, uniq):
        ops = []
        n = rng.randint(1, 5)
        for _ in range(n):
            if budget[0] <= 0:
                break
            budget[0] -= 1
            r = rng.random()
            if r < 0.34 and depth < 4:
                nk = rng.choice((0, 1, 1, 1, 2, 3))  # 0: a pure overlay scope, as aliases enter it
                ks = rng.sample(KEYS, nk)
                vals = {}
                for k in ks:
                    uniq[0] += 1
                    vals[k] = MASK if rng.random() < 0.25 else self._val(k, tid, uniq[0])
                overlay = None
                if nk == 0 or rng.random() < 0.25:
                    # the live dict an alias receives as env= : often still empty on entry (and on exit), filled from inside
                    overlay = {}
                    for ok in rng.sample(KEYS, rng.choice((0, 0, 1, 1, 1, 2))):
                        uniq[0] += 1
                        overlay[ok] = MASK if rng.random() < 0.35 else self._val(ok, tid, uniq[0])
                ops.append({"op": "swap", "vals": vals, "overlay": overlay, "how": rng.choice(("pos", "kw", "mixed", "mixed", "samekey", "badentry")), "exit": rng.choice(("normal", "normal", "raise", "raise", "baseexc")), "body": self.gen_ops(rng, tid, depth + 1, budget, uniq)})
            elif r < 0.355:
                # a variable with a `sync` partner (the deprecated and the new name of one setting): both follow the swap
                ops.append({"op": "syncswap", "val": rng.random() < 0.5, "exit": rng.choice(("normal", "raise"))})
            elif r < 0.37 and depth > 0:
                ops.append({"op": "delswapped"})  # `del $X` inside the block that swapped X
            elif r < 0.40 and depth > 0:
                # the alias body writes into / deletes from the overlay dict it was handed
                uniq[0] += 1
                ok = rng.choice(KEYS)
                ops.append({"op": "ovset", "key": ok, "val": rng.choice((MASK, "__DROP__", self._val(ok, tid, uniq[0]), self._val(ok, tid, uniq[0])))})
            elif r < 0.62:
                ops.append({"op": "probe", "key": rng.choice(KEYS + (f"P{tid}",))})
            elif r < 0.74:
                uniq[0] += 1
                ops.append({"op": "launch", "env": {rng.choice(KEYS): MASK if rng.random() < 0.2 else self._val("K0", tid, uniq[0])} if rng.random() < 0.7 else None})
            elif r < 0.86:
                uniq[0] += 1
                ops.append({"op": "set", "key": f"P{tid}", "val": f"p{tid}_{uniq[0]}"})
            elif r < 0.9:
                ops.append({"op": "del", "key": f"P{tid}"})
            else:
                ops.append({"op": "probe_all"})
        return ops

    @staticmethod
    def _val(k, tid, u):
        # (every sixth value is falsy: '' / an empty path list - a scope holding such a value is still a scope)
        if k == "MYPATH":
            return [] if u % 6 == 0 else [f"/p{tid}_{u}", f"/q{u}"]
        return "" if u % 6 == 0 else f"v{tid}_{u}"

    def gen_case(self, rng, tier, seed):
        nthreads = rng.choices((1, 2, 3), (2, 5, 3))[0]
        uniq = [0]
        progs = []
        for t in range(nthreads):
            budget = [rng.randint(4, 22)]
            progs.append(self.gen_ops(rng, t, 0, budget, uniq))
        # where threads are spawned: thread t>0 is spawned by thread (t-1) or 0 at a random top-level position
        spawns = []
        for t in range(1, nthreads):
            parent = rng.choice(range(t))
            spawns.append({"thread": t, "parent": parent, "inside_scope": rng.random() < 0.5})
        knobs = {
            "p": rng.choice((0.02, 0.1, 0.3, 0.5)),
            "policy": rng.choice(("random", "random", "starve", "pct", "rr")),
            "victim": rng.randrange(1, 4),
            "pct_points": sorted(rng.randrange(1, 2000) for _ in range(rng.choice((1, 2, 3)))),
            "clock_seed": rng.randrange(1 << 30),
            "max_steps": 600000,
        }
        init = {k: (self._val(k, 9, i) if rng.random() < 0.7 else None) for i, k in enumerate(KEYS)}
        return {"seed": seed, "progs": progs, "spawns": spawns, "init": init, "knobs": knobs}

    def simplify(self, case):
        if len(case["progs"]) > 1:
            c = copy.deepcopy(case)
            c["progs"].pop()
            c["spawns"].pop()
            yield c
        for t, prog in enumerate(case["progs"]):
            for i in range(len(prog)):
                c = copy.deepcopy(case)
                op = c["progs"][t][i]
                if op["op"] == "swap" and op["body"]:
                    c["progs"][t][i : i + 1] = op["body"]
                    yield c
                    c = copy.deepcopy(case)
                del c["progs"][t][i]
                yield c
        if case["knobs"]["policy"] != "random":
            c = copy.deepcopy(case)
            c["knobs"]["policy"] = "random"
            yield c

    # ------------------------------------------------------------------ run
    def run_case(self, case, tape, emit):
        ctx = procworld.RunCtx(case["seed"], case["knobs"], tape, emit)
        XSH = ctx.XSH
        env = XSH.env
        import xonsh.procs.specs as sx
        from xonsh.environ import DELETE_VAR

        env.register("C11_INT", type="int")
        for k, v in case["init"].items():
            if v is not None:
                env[k] = v
        G = {k: v for k, v in case["init"].items() if v is not None}  # constant during the run
        V = []
        probes = {k: 0 for k in self.expected_probes}
        in_scope_threads = set()
        k_ = ctx.k

        def real(v):
            return DELETE_VAR if v == MASK else v

        def view(state, key):
            # documented layering: alias overlays (most recent first) shadow swapped values (innermost
            # first), which shadow the shared values
            for want_overlay in (True, False):
                deleted = False
                for layer in reversed(state["stack"]):
                    if bool(layer.get("__overlay__")) == want_overlay and key in layer:
                        if layer[key] == "__DELETED_LOCAL__":
                            deleted = True  # the thread-local entry was deleted inside the block: what is below the swaps shows
                            break
                        return ABSENT if layer[key] == MASK else layer[key]
                if deleted:
                    break
            if key in state["persist"]:
                return state["persist"][key]
            if key in G:
                return G[key]
            return ABSENT

        def detyped(key, val):
            if isinstance(val, list):
                return ":".join(val)
            return str(val)

        def viol(clause, msg, **sig):
            V.append({"clause": clause, "msg": msg, "sig": sig})

        def probe(state, key, where):
            want = view(state, key)
            tid = state["tid"]
            others = bool(in_scope_threads - {tid})
            probes["probe_in_scope"] += int(bool(state["stack"]))
            probes["probe_masked"] += int(want is ABSENT and any(key in l_ and l_[key] == MASK for l_ in state["stack"]))
            probes["probe_while_other_thread_in_scope"] += int(others)
            got = {}
            try:
                try:
                    x = env[key]
                    got["[]"] = list(x) if key == "MYPATH" else x
                except KeyError:
                    got["[]"] = ABSENT
                got["in"] = key in env
                g = env.get(key, ABSENT)
                got["get"] = list(g) if (key == "MYPATH" and g is not ABSENT) else g
                got["iter"] = key in list(env)
                d = env.detype()
                got["detype"] = d.get(key, ABSENT)
                if state["n"] % 4 == 0:  # (walks all ~200 registered variables: sampled)
                    da = env.detype_all()
                    got["detype_all"] = da.get(key, ABSENT)
                else:
                    got["detype_all"] = None
                state["n"] += 1
            except Exception as e:  # noqa: BLE001
                viol("view.in_scope", f"thread {tid} {where}: reading ${key} raised {type(e).__name__}: {e}\n{traceback.format_exc()[-700:]}", path="exception", others=others)
                return
            wd = ABSENT if want is ABSENT else detyped(key, want)
            exp = {"[]": want, "in": want is not ABSENT, "get": want, "iter": want is not ABSENT, "detype": wd, "detype_all": wd}
            for path in ("[]", "in", "get", "iter", "detype", "detype_all"):
                if got[path] is None and path == "detype_all":
                    continue
                if got[path] != exp[path]:
                    clause = "view.other_thread" if self._foreign(got[path], tid) else "view.in_scope"
                    viol(
                        clause,
                        f"thread {tid} {where}: ${key} via {path} = {got[path]!r} but the thread's own innermost scope says {exp[path]!r} "
                        f"(scope stack {state['stack']}, global {G.get(key, ABSENT)!r}; all paths: {got})",
                        path=path,
                        others=others,
                        foreign=self._foreign(got[path], tid),
                        depth=len(state["stack"]),
                    )
                    return

        def launch(state, cmd_env, where):
            tid = state["tid"]
            probes["launch_probe"] += 1
            spec = sx.SubprocSpec(["cmd"], env={k: real(v) for k, v in cmd_env.items()} if cmd_env else None)
            kw = {}
            try:
                spec.prep_env_subproc(kw)
            except Exception as e:  # noqa: BLE001
                viol("view.in_scope", f"thread {tid} {where}: building the child environment raised {type(e).__name__}: {e}", path="launch-exception")
                return
            child = kw["env"]
            layer = dict(cmd_env or {})
            state["stack"].append(layer)  # the per-command env is one more swap scope around detype()
            wants = {key: view(state, key) for key in KEYS + (f"P{tid}",)}
            state["stack"].pop()
            for key in KEYS + (f"P{tid}",):
                want = wants[key]
                wd = ABSENT if want is ABSENT else detyped(key, want)
                gotv = child.get(key, ABSENT)
                if gotv != wd:
                    clause = "view.other_thread" if self._foreign(gotv, tid) else "view.in_scope"
                    viol(clause, f"thread {tid} {where}: a child launched here (per-command env {cmd_env}) receives ${key}={gotv!r}, expected {wd!r}; stack {state['stack']}", path="child", others=bool(in_scope_threads - {tid}), foreign=self._foreign(gotv, tid))
                    return
            bad = [(a, b) for a, b in child.items() if not isinstance(a, str) or not isinstance(b, str)]
            if bad:
                viol("child.no_garbage", f"child mapping holds non-string entries {bad[:3]}")

        def run_ops(ops, state, where):
            for i, op in enumerate(ops):
                if V:
                    return
                w = f"{where}/{i}:{op['op']}"
                kind = op["op"]
                if kind == "probe":
                    probe(state, op["key"], w)
                elif kind == "probe_all":
                    for key in KEYS + (f"P{state['tid']}",):
                        probe(state, key, w)
                elif kind == "syncswap":
                    names = ("XONSH_PROMPT_AUTO_SUGGEST", "AUTO_SUGGEST")
                    before = {n: (env.get(n, ABSENT), n in env._d) for n in names}
                    try:
                        with env.swap(**{names[0]: op["val"]}):
                            inside = tuple(env.get(n, ABSENT) for n in names)
                            if inside != (op["val"], op["val"]):
                                viol("view.in_scope", f"thread {state['tid']} {w}: inside swap({names[0]}={op['val']}) the pair reads {inside}", path="sync", others=False)
                            if op["exit"] == "raise":
                                raise _Boom()
                    except _Boom:
                        pass
                    after = {n: (env.get(n, ABSENT), n in env._d) for n in names}
                    probes["sync_partner_swap"] = probes.get("sync_partner_swap", 0) + 1
                    if after != before:
                        viol("exit.restores", f"thread {state['tid']} {w}: swap({names[0]}={op['val']}) left (value, explicitly set) = {after}, before it was {before}", path="sync")
                elif kind == "delswapped":
                    # only the innermost scope's own keys, and only where no overlay shadows the name
                    inner = next((l_ for l_ in reversed(state["stack"]) if not l_.get("__overlay__")), None)
                    if inner is None or inner is not state["stack"][-1] and not state["stack"][-1].get("__overlay__"):
                        continue
                    cands_ = [k2 for k2 in inner if k2 != "__overlay__" and inner[k2] != "__DELETED_LOCAL__" and not any(l_.get("__overlay__") and k2 in l_ for l_ in state["stack"])]
                    if not cands_:
                        continue
                    k2 = sorted(cands_)[0]
                    try:
                        del env[k2]
                    except KeyError:
                        pass  # (a masked, globally unset, unregistered name: nothing to delete)
                    except Exception as e:  # noqa: BLE001
                        viol("view.in_scope", f"thread {state['tid']} {w}: del ${k2} inside the block that swapped it raised {type(e).__name__}: {e}", path="exception", others=False)
                        continue
                    inner[k2] = "__DELETED_LOCAL__"
                    probes["deleted_inside_block"] = probes.get("deleted_inside_block", 0) + 1
                    probe(state, k2, w)
                elif kind == "ovset":
                    if state.get("ovs"):
                        rd, ml = state["ovs"][-1]
                        if op["val"] == "__DROP__":
                            rd.pop(op["key"], None)
                            ml.pop(op["key"], None)
                        else:
                            rd[op["key"]] = real(op["val"])
                            ml[op["key"]] = op["val"]
                        probes["overlay_filled_inside"] = probes.get("overlay_filled_inside", 0) + 1
                        probe(state, op["key"], w)
                elif kind == "launch":
                    launch(state, op["env"], w)
                elif kind in ("set", "del") and (len(started) > sum(1 for t_ in started.values() if not t_.is_alive()) or state["tid"] != 0):
                    pass  # unrelated global assignments racing with other threads' reads are outside the statement
                elif kind == "set":
                    env[op["key"]] = op["val"]
                    state["persist"][op["key"]] = op["val"]
                elif kind == "del":
                    if op["key"] in state["persist"]:
                        del env[op["key"]]
                        del state["persist"][op["key"]]
                elif kind == "swap":
                    vals = op["vals"]
                    layer = dict(vals)
                    probes["nested_same_key"] += int(any(k2 in l_ for l_ in state["stack"] for k2 in vals))
                    probes["exit_by_exception"] += int(op["exit"] == "raise")
                    before = {key: view(state, key) for key in KEYS + (f"P{state['tid']}",)}
                    rv = {k2: real(v2) for k2, v2 in vals.items()}
                    has_ov = op["overlay"] is not None
                    ov = {k2: real(v2) for k2, v2 in op["overlay"].items()} if has_ov else None
                    probes["empty_overlay_scope"] = probes.get("empty_overlay_scope", 0) + int(has_ov and not op["overlay"])
                    bad_entry = False
                    if op["how"] == "samekey" and rv:
                        # the same variable in the positional mapping and as keyword: the keyword wins inside, and
                        # afterwards the variable is as before (not what the positional mapping said)
                        k0 = next(iter(rv))
                        first = dict(rv)
                        first[k0] = real("" if k0 != "MYPATH" else [])
                        cm = env.swap(first, overlay=ov, **{k0: rv[k0]})
                        probes["same_key_twice"] = probes.get("same_key_twice", 0) + 1
                    elif op["how"] == "badentry" and rv:
                        # entering fails half-way (a value its variable's type rejects): nothing may stay swapped
                        bad_entry = True
                        cm = env.swap(dict(rv), overlay=ov, C11_INT="not a number")
                        probes["entry_fails_halfway"] = probes.get("entry_fails_halfway", 0) + 1
                    elif op["how"] == "pos" or not rv:
                        cm = env.swap(rv, overlay=ov)
                    elif op["how"] == "kw":
                        cm = env.swap(overlay=ov, **rv)
                    else:
                        items = list(rv.items())
                        cm = env.swap(dict(items[:1]), overlay=ov, **dict(items[1:]))
                    if bad_entry:
                        try:
                            with cm:
                                viol("exit.restores", f"thread {state['tid']} {w}: swap(..., C11_INT='not a number') was entered although the value is invalid", path="entry")
                        except (ValueError, TypeError):
                            pass
                        except Exception as e:  # noqa: BLE001
                            viol("view.in_scope", f"thread {state['tid']} {w}: entering swap with an invalid value raised {type(e).__name__}: {e}", path="exception", others=False)
                        for key in KEYS:
                            probe(state, key, w + ":after-failed-entry")
                        continue
                    try:
                        with cm:
                            state["stack"].append(layer)
                            if has_ov:
                                ovl = dict(op["overlay"])
                                ovl["__overlay__"] = True
                                state["stack"].append(ovl)
                                state.setdefault("ovs", []).append((ov, ovl))
                            in_scope_threads.add(state["tid"])
                            for key in list(vals) + [k2 for k2 in (op["overlay"] or ()) if k2 not in vals]:
                                probe(state, key, w + ":entered")
                            run_ops(op["body"], state, w)
                            if op["exit"] == "raise":
                                raise _Boom()
                            if op["exit"] == "baseexc":
                                # SystemExit / KeyboardInterrupt style exits (an alias calling sys.exit(), Ctrl-C in the block)
                                probes["exit_by_base_exception"] = probes.get("exit_by_base_exception", 0) + 1
                                raise _BoomBase()
                    except (_Boom, _BoomBase):
                        pass
                    finally:
                        if has_ov:
                            state["stack"].pop()
                            state["ovs"].pop()
                        state["stack"].pop()
                        if not state["stack"]:
                            in_scope_threads.discard(state["tid"])
                    if V:
                        return
                    # exit restores: every read path as before entry (persist keys follow the model)
                    for key in KEYS:
                        # (the model's own view may differ from `before` when the body wrote into an enclosing overlay dict;
                        #  what is judged is that every read path shows what the remaining scopes say)
                        probe(state, key, w + ":after-exit")
                    probe(state, f"P{state['tid']}", w + ":after-exit")
                # spawn points
                for sp in case["spawns"]:
                    if sp["parent"] == state["tid"] and sp["thread"] not in started and (len(where.split("/")) > 1) == sp["inside_scope"] and i == min(1, len(ops) - 1):
                        spawn(sp["thread"], state)

        started = {}

        def spawn(t, pstate):
            probes["inherited_swaps"] += int(bool(pstate["stack"]))
            swapped = env.get_swapped_values()
            # the child inherits the parent's swapped values (flattened), not its overlays
            flat = {}
            for key in KEYS:
                for layer, is_overlay in self._layers(pstate):
                    if key in layer and not is_overlay:
                        flat[key] = layer[key]
                if flat.get(key) == "__DELETED_LOCAL__":
                    del flat[key]  # deleted inside the block: there is no thread-local value to inherit
            cstate = {"tid": t, "stack": [flat] if flat else [], "persist": {}, "n": t}

            def body():
                env.set_swapped_values(swapped)
                if cstate["stack"]:
                    in_scope_threads.add(t)
                run_ops(case["progs"][t], cstate, f"T{t}")
                in_scope_threads.discard(t)

            th = threading.Thread(target=body, name=f"worker{t}")
            started[t] = th
            th.start()

        self._overlay_marks = {}
        ctx.partial = {"summary": {"threads": len(case["progs"])}, "abort_sig": {"where": "env"}}
        ctx.start()
        main_state = {"tid": 0, "stack": [], "persist": {}, "n": 0}
        try:
            run_ops(case["progs"][0], main_state, "T0")
            for sp in case["spawns"]:  # threads whose spawn point was never reached start at the end
                if sp["thread"] not in started and sp["parent"] == 0:
                    spawn(sp["thread"], main_state)
            k_.wait_quiescent(60.0, include=lambda r: r.kind == "thread")
            # final: main thread sees exactly the initial shared values again
            if not V:
                for key in KEYS:
                    probe(main_state, key, "final")
        except BaseException as e:  # noqa: B902
            if isinstance(e, _k.SimExit):
                raise
            viol("no.exception", f"{type(e).__name__}: {e}\n{traceback.format_exc()[-1200:]}", exc=type(e).__name__)
        k_.stop()
        res = ctx.base_result()
        if ctx.thread_excs and not V:
            viol("no.exception", ctx.thread_excs[0], exc="thread")
        res["violations"] = V[:3]
        res["probes"].update(probes)
        depth = self._maxdepth(case["progs"])
        res["nontrivial"] = (len(started) >= 1 or depth >= 2) and k_.preempts > 0
        shape = (len(case["progs"]), tuple(tuple(o["op"] for o in p[:8]) for p in case["progs"]), depth)
        res["states"] = [hashlib.sha1(repr(shape).encode()).hexdigest()[:12]]
        res["key"] = hashlib.sha1((repr(shape) + res["digest"]).encode()).hexdigest()[:16]
        res["summary"] = {"threads": len(case["progs"]), "started": sorted(started), "depth": depth}
        return res

    @staticmethod
    def _foreign(val, tid):
        """Does the observed value carry another thread's tag (v<t>_n / /p<t>_n)?"""
        s = repr(val)
        import re

        tags = {int(m) for m in re.findall(r"[vp](\d)_\d+", s)}
        return bool(tags - {tid, 9})

    def _layers(self, state):
        # overlays were pushed right after their swap layer; we mark them by identity bookkeeping:
        out = []
        for layer in state["stack"]:
            out.append((layer, bool(layer.get("__overlay__"))))
        return out

    def _maxdepth(self, progs):
        def d(ops):
            return max([0] + [1 + d(o["body"]) for o in ops if o["op"] == "swap"])

        return max(d(p) for p in progs)


ENGINE = C11()
