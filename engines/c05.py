"""C05 - chains, exit codes and fail-fast follow the documented truth table.

Programs of 1-3 statements, each a tree of and/or/&&/|| over pipelines (1-3 stages, SimProc or
callable-alias, every stage with its own exit code / death signal / timing) in the capture forms,
with decorators and both raise flags, run through the real Execer under the SimKernel; which
commands ran, what escaped and where is compared with a small reference evaluator.
"""

import copy
import hashlib
import subprocess
import traceback

from simkit import procworld, simproc
from simkit.engine import Engine

OPS = ("and", "or", "&&", "||")
CHAIN_FORMS = ("bare", "![]", "!()")  # pipeline-valued operands: truth is the exit code
FINAL_FORMS = ("bare", "![]", "!()", "$()", "$[]", "@$()")
RCS = (0, 0, 0, 1, 2, 127, -9, -13)


class C05(Engine):
    property_id = "C05"
    level = "exploration"
    budgets = {
        "quick": {"runs": 10000, "wall": 80, "min_runs": 150, "min_wall": 30},
        "thorough": {"runs": 100000, "wall": 1500, "min_runs": 400, "min_wall": 90},
    }
    rule = (
        "case = program of 1-3 statements; statement = and/or/&&/|| tree (depth<=3, <=5 leaves) over pipelines of 1-3 stages (SimProc threadable/"
        "unthreadable, callable alias; exit code per stage from {0,1,2,127,-9,-13}; output size/timing per stage) in capture forms (bare, ![], !() as "
        "operands; additionally $(), $[], @$() standalone or as final operand), decorators @error_raise/@error_ignore, operand texts that are / are not "
        "valid Python, flags $XONSH_SUBPROC_RAISE_ERROR x $XONSH_SUBPROC_CMD_RAISE_ERROR (the latter only for chain-free statements), schedule knobs. "
        "non-trivial = >=2 leaves or >=2 stages, and >=1 failing stage; distinct = distinct (program shape, exit-code assignment, schedule digest)"
    )
    state_measure = "distinct (statement shapes, forms, decorators, flags, exit-code vector)"
    assumptions = [
        "operands whose value is not a pipeline object ($(), $[], @$()) are generated only standalone or as the last operand of a chain: Python truthiness of "
        "str/None/list is not the exit code there (deterministic, schedule-independent deviation documented in DESIGN.md, not judged by this check)",
        "$XONSH_SUBPROC_CMD_RAISE_ERROR=True is combined with chain-free statements only",
        "child processes are SimProc stubs; exit status of a real `python -m xonsh` process is outside the simulator",
    ]
    components = {
        "real": ["lexer/parser (_SubprocChainRaiseWrapper)", "Execer", "built_ins.subproc_* / subproc_check_boolop", "procs.specs/pipelines/posix/proxies/readers", "aliases decorators"],
        "stub": ["child processes (SimProc)", "scheduler", "clock"],
    }
    expected_probes = ["short_circuit_skipped_leaf", "raise_expected", "error_raise_decorator", "error_ignore_decorator", "stage_died_by_signal", "nonlast_stage_failed"]

    def warmup(self):
        procworld.warm()

    # ------------------------------------------------------------------ generation
    def gen_leaf(self, rng, lid, final, chainfree, allow_bare=True):
        forms = FINAL_FORMS if final else CHAIN_FORMS
        if not allow_bare:
            forms = tuple(f for f in forms if f != "bare")
        if not chainfree:
            forms = tuple(f for f in forms if f != "@$()")  # (needs a bare carrier command: chain-free statements only)
        else:
            forms = tuple(f for f in forms if f != "!()")  # (an unused !() object is never waited for: no order to judge)
        form = rng.choice(forms)
        n = rng.choices((1, 2, 3), (6, 3, 1))[0]
        stages = []
        for j in range(n):
            kind = rng.choices(("proc", "alias", "uproc"), (6, 3, 1 if j == n - 1 else 0))[0]
            rc = rng.choice(RCS)
            if kind == "alias":
                rc = abs(rc) % 100
            stages.append({"kind": kind, "rc": rc, "n": rng.choice((0, 5, 300, 3000)), "delay": rng.choice((0, 0, 1e-4, 0.02)), "after": rng.choice((0, 0, 1e-4, 0.05))})
        deco = rng.choices((None, "@error_raise", "@error_ignore"), (8, 1, 1))[0]
        if deco == "@error_raise" and form == "!()":
            deco = None  # !() is evaluated lazily: where it would raise is not a statement-level notion
        # (operand text that is also valid Python only for chain-free statements: inside and/or chains the
        #  Python-vs-command decision is C02/C03 territory)
        return {"leaf": lid, "form": form, "stages": stages, "deco": deco, "pyarg": chainfree and rng.random() < 0.4}

    def gen_tree(self, rng, depth, counter, final=True, flat_ops=None):
        if depth == 0 or rng.random() < 0.35 or counter[0] >= 4:
            counter[0] += 1
            return self.gen_leaf(rng, counter[0] - 1, final, False, allow_bare=flat_ops is not None)
        op = rng.choice(flat_ops or OPS)
        if flat_ops is not None:
            # flat chain a && b || c ... parsed left-associatively with and binding tighter than or:
            # generate it as a left-nested tree only when all operators are equal, so text == tree
            left = self.gen_tree(rng, depth - 1, counter, final=False, flat_ops=(op,))
            right = self.gen_leaf(rng, counter[0], final, False, allow_bare=True)
            counter[0] += 1
            if op == "||" and rng.random() < 0.3:
                # a FAILING `$[...]` operand that is not the last one of a flat `||` chain: its value (None) is falsy and
                # its exit code is a failure, so both readings agree - the chain goes on, and nothing raises there
                lf = left
                while "op" in lf and rng.random() < 0.5:
                    lf = lf["l"]
                if "op" in lf:
                    lf = lf["r"]
                if lf.get("form") in CHAIN_FORMS:
                    lf["form"] = "$[]"
                    lf["deco"] = None
                    lf["stages"][-1]["rc"] = 3
                    if lf["stages"][-1]["kind"] == "uproc":
                        lf["stages"][-1]["kind"] = "proc"
            return {"op": op, "l": left, "r": right, "paren": False}
        left = self.gen_tree(rng, depth - 1, counter, final=False)
        right = self.gen_tree(rng, depth - 1, counter, final=final)
        return {"op": op, "l": left, "r": right, "paren": True}

    def gen_case(self, rng, tier, seed):
        nst = rng.choices((1, 2, 3), (5, 3, 1))[0]
        cmd_raise = rng.random() < 0.25
        stmts = []
        counter = [0]
        for _ in range(nst):
            if cmd_raise:
                counter[0] += 1
                t = self.gen_leaf(rng, counter[0] - 1, True, True)
                if t["form"] == "!()":
                    t["form"] = "bare"
            elif rng.random() < 0.3:
                counter[0] += 1
                t = self.gen_leaf(rng, counter[0] - 1, True, True)
            elif rng.random() < 0.4:
                t = self.gen_tree(rng, 3, counter, flat_ops=(rng.choice(("&&", "||")),))
            else:
                t = self.gen_tree(rng, 3, counter)
            stmts.append(t)
        knobs = {
            "p": rng.choice((0.0, 0.02, 0.1, 0.3)),
            "policy": rng.choice(("random", "random", "starve", "pct", "nopreempt")),
            "victim": rng.randrange(1, 9),
            "pct_points": sorted(rng.randrange(1, 3000) for _ in range(rng.choice((1, 2, 3)))),
            "pipe_cap": rng.choice((4096, 65536)),
            "proc_freq": rng.choice((1e-4, 1e-3, 1e-5)),
            "clock_seed": rng.randrange(1 << 30),
            "max_steps": 800000,
        }
        return {"seed": seed, "stmts": stmts, "raise_error": rng.random() < 0.7, "cmd_raise": cmd_raise, "knobs": knobs}

    def simplify(self, case):
        for i in range(len(case["stmts"])):
            if len(case["stmts"]) > 1:
                c = copy.deepcopy(case)
                del c["stmts"][i]
                yield c
            t = case["stmts"][i]
            if "op" in t:
                for side in ("l", "r"):
                    c = copy.deepcopy(case)
                    c["stmts"][i] = c["stmts"][i][side]
                    yield c
        for leaf in _leaves_of(case):
            if len(leaf["stages"]) > 1:
                c = copy.deepcopy(case)
                for lf in _leaves_of(c):
                    if lf["leaf"] == leaf["leaf"]:
                        lf["stages"] = lf["stages"][-1:]
                yield c
        if case["knobs"]["policy"] != "random":
            c = copy.deepcopy(case)
            c["knobs"]["policy"] = "random"
            yield c
        for p in (0.0, 0.02):
            if case["knobs"]["p"] > p:
                c = copy.deepcopy(case)
                c["knobs"]["p"] = p
                yield c

    # ------------------------------------------------------------------ source text
    def _leaf_src(self, leaf):
        parts = []
        for j, st in enumerate(leaf["stages"]):
            name = {"proc": "lp", "uproc": "lu", "alias": "la"}[st["kind"]] + f"{leaf['leaf']}x{j}"
            arg = f"-s{leaf['leaf']}_{j}" if (leaf["pyarg"] and j == 0 and len(leaf["stages"]) == 1) else f"s{leaf['leaf']}_{j}"
            parts.append(f"{name} {arg}")
        if leaf["deco"]:
            parts[-1] = f"{leaf['deco']} {parts[-1]}"  # the decorator of the final stage governs the pipeline
        line = " | ".join(parts)
        form = leaf["form"]
        if form == "bare":
            return line
        if form == "![]":
            return f"![{line}]"
        if form == "!()":
            return f"!({line})"
        if form == "$()":
            return f"$({line})"
        if form == "$[]":
            return f"$[{line}]"
        return f"lrecv @$({line})"

    def _tree_src(self, t, top=True):
        if "op" not in t:
            return self._leaf_src(t)
        s = f"{self._tree_src(t['l'], False)} {t['op']} {self._tree_src(t['r'], False)}"
        if t["paren"] and not top:
            return f"({s})"
        return s  # (flat chains of one operator are left-nested: text and tree agree)

    # ------------------------------------------------------------------ reference evaluator
    def _eval(self, t, st):
        """Short-circuit evaluation.  st: dict with ran (list), raised (None or leaf id)."""
        if st["raised"] is not None:
            return None
        if "op" not in t:
            rc = t["stages"][-1]["rc"]
            st["ran"].append(t["leaf"])
            st["last"] = t
            if rc != 0 and t["deco"] == "@error_raise":
                st["raised"] = t["leaf"]
                st["where"] = "command"
            return rc == 0
        lv = self._eval(t["l"], st)
        if st["raised"] is not None:
            return None
        if t["op"] in ("and", "&&"):
            return self._eval(t["r"], st) if lv else lv
        return lv if lv else self._eval(t["r"], st)

    def _model(self, case):
        ran, raised_at = [], None
        for si, t in enumerate(case["stmts"]):
            st = {"ran": [], "raised": None, "last": None}
            self._eval(t, st)
            ran += st["ran"]
            if st["raised"] is not None:
                raised_at = (si, st["raised"], "command")
                break
            last = st["last"]
            rc = last["stages"][-1]["rc"]
            if rc != 0 and last["deco"] != "@error_ignore":
                chainfree = "op" not in t
                if chainfree and case["cmd_raise"] and last["form"] != "!()":
                    raised_at = (si, last["leaf"], "command")
                    break
                if case["raise_error"] and last["form"] != "!()":
                    raised_at = (si, last["leaf"], "statement")
                    break
        return ran, raised_at

    # ------------------------------------------------------------------ run
    def run_case(self, case, tape, emit):
        ctx = procworld.RunCtx(case["seed"], case["knobs"], tape, emit)
        XSH = ctx.XSH
        env = XSH.env
        env["XONSH_PROC_FREQUENCY"] = case["knobs"]["proc_freq"]
        env["XONSH_SUBPROC_RAISE_ERROR"] = bool(case["raise_error"])
        env["XONSH_SUBPROC_CMD_RAISE_ERROR"] = bool(case["cmd_raise"])
        leaves = _leaves_of(case)
        alias_log = []
        for leaf in leaves:
            for j, st in enumerate(leaf["stages"]):
                sid = f"s{leaf['leaf']}_{j}"
                name = {"proc": "lp", "uproc": "lu", "alias": "la"}[st["kind"]] + f"{leaf['leaf']}x{j}"
                spec = {"cls": "lines", "n": st["n"], "tag": leaf["leaf"] * 10 + j + 1, "final_nl": True}
                if st["kind"] in ("proc", "uproc"):
                    ctx.add_stub(name, unthreadable=(st["kind"] == "uproc"))
                    script = []
                    if j > 0:
                        script.append(["readall", 4096])
                    if st["delay"]:
                        script.append(["sleep", st["delay"]])
                    script.append(["out", 1, spec, 0, len(simproc.make_payload(spec)), 1024])
                    if st["after"]:
                        script.append(["sleep", st["after"]])
                    script.append(["die", -st["rc"]] if st["rc"] < 0 else ["exit", st["rc"]])
                    simproc.SCRIPTS[sid] = script
                    simproc.SCRIPTS["-" + sid] = script
                else:
                    XSH.aliases[name] = _alias(leaf["leaf"], j, st, spec, alias_log)

        def lrecv(args, stdin=None):
            return 0

        lrecv.__xonsh_threadable__ = False
        XSH.aliases["lrecv"] = lrecv
        src = "\n".join(self._tree_src(t) for t in case["stmts"]) + "\n"
        want_ran, want_raise = self._model(case)
        V = []
        ctx.partial = {"summary": {"src": src}, "abort_sig": {"where": "program"}}

        def viol(clause, msg, **sig):
            s = {"flags": f"R{int(case['raise_error'])}C{int(case['cmd_raise'])}"}
            s.update(sig)
            V.append({"clause": clause, "msg": msg, "sig": s})

        ctx.start()
        exc = None
        try:
            ctx.exec_src(src)
        except subprocess.CalledProcessError as e:
            exc = ("CalledProcessError", e.returncode, list(e.cmd) if isinstance(e.cmd, (list, tuple)) else e.cmd)
        except BaseException as e:  # noqa: B902
            if isinstance(e, procworld._k.SimExit):
                raise
            exc = (type(e).__name__, None, traceback.format_exc()[-1200:])
        ctx.quiesce(10.0)
        ctx.k.stop()
        # which leaves ran, in order (a leaf ran iff its first stage was started)
        events = []
        for pid, argv, path in simproc.STARTED:
            base = argv[0].rsplit("/", 1)[-1]
            if base[:2] in ("lp", "lu") and "x" in base:
                lid, j = base[2:].split("x")
                events.append((pid, int(lid), int(j)))
        order = []
        seq = [(("p", pid), lid, j) for pid, lid, j in events] + [(("a", n), lid, j) for n, (lid, j) in enumerate(alias_log)]
        # merge by global start order recorded in the kernel-independent counter
        merged = sorted(_START_ORDER, key=lambda x: x[0])
        for _, lid, j in merged:
            if lid not in order:
                order.append(lid)
        got_ran = order
        del seq
        leaf_by_id = {lf["leaf"]: lf for lf in leaves}
        if exc is not None and exc[0] != "CalledProcessError":
            viol("no.exception", f"program\n{src}raised {exc[0]}\n{exc[2]}", exc=exc[0])
        else:
            # a !() object that ends a statement is not waited for (its stages start when they start):
            # it must have run, but its position relative to later statements is not defined
            lazy = {lf_["leaf"] for t_ in case["stmts"] for lf_ in [_final_leaf(t_)] if lf_["form"] == "!()"}
            same = sorted(got_ran) == sorted(want_ran) and [x for x in got_ran if x not in lazy] == [x for x in want_ran if x not in lazy]
            if not same:
                viol(
                    "ran.exact",
                    f"program\n{src}ran leaves {got_ran} but short-circuit evaluation over the exit codes {[(lf['leaf'], lf['stages'][-1]['rc']) for lf in leaves]} runs {want_ran}",
                    extra=sorted(set(got_ran) - set(want_ran)) != [],
                    missing=sorted(set(want_ran) - set(got_ran)) != [],
                )
            elif (exc is not None) != (want_raise is not None):
                lf = leaf_by_id[want_ran[-1]] if want_ran else None
                viol(
                    "raise.iff",
                    f"program\n{src}{'raised ' + repr(exc) if exc else 'raised nothing'} but the documented rule says "
                    f"{'raise at leaf ' + str(want_raise) if want_raise else 'no raise'} (last leaf run: {lf and (lf['leaf'], lf['form'], lf['deco'], lf['stages'][-1]['rc'])})",
                    got=exc is not None,
                    form=lf and lf["form"],
                    deco=lf and lf["deco"],
                    chain="op" in case["stmts"][min(want_raise[0] if want_raise else len(case["stmts"]) - 1, len(case["stmts"]) - 1)],
                )
            elif exc is not None and want_raise is not None:
                lf = leaf_by_id[want_raise[1]]
                want_rc = lf["stages"][-1]["rc"]
                if exc[1] != want_rc:
                    viol("rc.is_last_stage", f"program\n{src}CalledProcessError.returncode={exc[1]} but the failing pipeline's last stage exited with {want_rc}", got=exc[1], want=want_rc)
        res = ctx.base_result()
        res["violations"] = V
        nleaves = len(leaves)
        fails = sum(1 for lf in leaves for s in lf["stages"] if s["rc"] != 0)
        res["probes"].update(
            {
                "short_circuit_skipped_leaf": int(len(want_ran) < nleaves and want_raise is None),
                "raise_expected": int(want_raise is not None),
                "error_raise_decorator": sum(1 for lf in leaves if lf["deco"] == "@error_raise"),
                "error_ignore_decorator": sum(1 for lf in leaves if lf["deco"] == "@error_ignore"),
                "stage_died_by_signal": sum(1 for lf in leaves for s in lf["stages"] if s["rc"] < 0),
                "nonlast_stage_failed": sum(1 for lf in leaves for s in lf["stages"][:-1] if s["rc"] != 0),
            }
        )
        res["faults"] = {"stage_exit_nonzero": sum(1 for lf in leaves for s in lf["stages"] if s["rc"] > 0), "stage_killed_by_signal": res["probes"]["stage_died_by_signal"]}
        res["nontrivial"] = (nleaves >= 2 or any(len(lf["stages"]) >= 2 for lf in leaves)) and fails >= 1
        shape = (src, tuple(s["rc"] for lf in leaves for s in lf["stages"]), case["raise_error"], case["cmd_raise"])
        res["states"] = [hashlib.sha1(repr((_shape(case), case["raise_error"], case["cmd_raise"])).encode()).hexdigest()[:12]]
        res["key"] = hashlib.sha1((repr(shape) + res["digest"]).encode()).hexdigest()[:16]
        res["summary"] = {"src": src, "ran": got_ran, "exc": exc and exc[:2], "want_ran": want_ran, "want_raise": want_raise}
        if V:
            o, e = ctx.read_tty()
            res["tty_err_tail"] = e[-800:].decode("utf-8", "replace")
        return res


_START_ORDER = []
_orig_init = simproc.SimPopen.__init__


def _tracking_init(self, args, *a, **kw):
    _orig_init(self, args, *a, **kw)
    base = self.args[0].rsplit("/", 1)[-1]
    if base[:2] in ("lp", "lu") and "x" in base:
        lid, j = base[2:].split("x")
        _START_ORDER.append((len(_START_ORDER), int(lid), int(j)))


simproc.SimPopen.__init__ = _tracking_init


def _alias(lid, j, st, spec, log):
    text = simproc.make_payload(spec).decode()

    def fn(args, stdin=None, stdout=None):
        _START_ORDER.append((len(_START_ORDER), lid, j))
        log.append((lid, j))
        if j > 0 and stdin is not None:
            for _ in stdin:
                pass
        stdout.write(text)
        return st["rc"]

    return fn


def _final_leaf(t):
    while "op" in t:
        t = t["r"]
    return t


def _leaves_of(case):
    out = []

    def walk(t):
        if "op" in t:
            walk(t["l"])
            walk(t["r"])
        else:
            out.append(t)

    for t in case["stmts"]:
        walk(t)
    return out


def _shape(case):
    def sh(t):
        if "op" in t:
            return (t["op"], sh(t["l"]), sh(t["r"]))
        return (t["form"], t["deco"], tuple(s["kind"] for s in t["stages"]), tuple(s["rc"] != 0 for s in t["stages"]))

    return tuple(sh(t) for t in case["stmts"])


ENGINE = C05()
