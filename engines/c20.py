"""C20 - the job table is always consistent with the processes it tracks.

The real job-table code of `xonsh.procs.jobs` (add_job / get_next_job_number /
_clear_dead_jobs / get_next_task / resume_job / fg / bg / disown incl. its argparse front
end / jobs / use_main_jobs and the thread-local tables) is driven with stub process
objects whose poll() is scripted (a job exits at once, at its n-th poll - i.e. in the
middle of a job-control command - or at a simulated time) under the SimKernel:

 * sequential steps, each executed either on the main thread or on a fresh alias thread
   (as ProcProxyThread does), are judged EXACTLY against a reference model of the table
   (numbering, selection, MRU order, purge, error replies, what gets resumed / continued);
 * alias sessions run a thread with its own thread-local table that also issues
   jobs / bg / disown on the main table (use_main_jobs must swap and restore);
 * concurrent blocks let the main thread spin in get_next_task() (what the foreground wait
   loop does) and start jobs while alias threads run jobs / bg / disown and jobs exit at
   simulated times, every interleaving decided by the seeded scheduler; afterwards the
   table invariants are judged (MRU is a permutation of exactly the registered jobs, no
   live job lost, no removed job resurrected, nothing invented, no exception).
"""

import collections
import copy
import hashlib
import io
import os
import signal
import sys
import traceback

from simkit import kernel as _k
from simkit import procworld
from simkit.engine import Engine

ARGS = ([], [], ["+"], ["-"], ["1"], ["2"], ["3"], ["4"], ["7"], ["0"], ["-1"], ["x"], ["1", "2"], ["+", "-"], [""])


class _Spec:
    def __init__(self, captured):
        self.captured = captured
        self.background = False


class _Pipe:
    """Stand-in for CommandPipeline: what resume() is asked to do is recorded."""

    def __init__(self, uid, captured, log):
        self.uid = uid
        self.spec = _Spec(captured)
        self.term_pgid = 5000 + uid
        self.suspended = False
        self.log = log

    def resume(self, job, tee_output=True):
        self.log.append(("resume", self.uid, job.get("uid"), bool(tee_output)))


class _Proc:
    """Stub process: poll() is scripted."""

    def __init__(self, uid, eng):
        self.uid = uid
        self.pid = 4000 + uid
        self.returncode = None
        self.dead_flag = False
        self.die_after_polls = None
        self.die_at = None
        self.npolls = 0
        self.eng = eng

    def poll(self):
        k = _k.K
        if k is not None and k.active:
            k.point("poll")  # a process may exit at any instant: let the scheduler move here
        self.npolls += 1
        if self.returncode is None:
            if self.dead_flag or (self.die_after_polls is not None and self.npolls >= self.die_after_polls) or (self.die_at is not None and k is not None and k.now >= self.die_at):
                self.returncode = 0
                self.eng.probes["exit_observed_by_purge"] += 1
        return self.returncode

    def doomed(self):
        """Will (or did) this process be seen dead by the next poll?"""
        return self.returncode is not None or self.dead_flag or (self.die_after_polls is not None and self.npolls + 1 >= self.die_after_polls)


class _Table:
    """Reference model of one job table."""

    def __init__(self):
        self.jobs = {}  # num -> dict(uid, bg, status)
        self.mru = []

    def clone(self):
        t = _Table()
        t.jobs = {n: dict(j) for n, j in self.jobs.items()}
        t.mru = list(self.mru)
        return t


class C20(Engine):
    property_id = "C20"
    level = "exploration"
    budgets = {
        "quick": {"runs": 6000, "wall": 85, "min_runs": 300, "min_wall": 30},
        "thorough": {"runs": 200000, "wall": 1500, "min_runs": 600, "min_wall": 90},
    }
    rule = (
        "case = $XONSH_INTERACTIVE x $AUTO_CONTINUE x history of 4-30 steps from: start a job (foreground / background / suspended, captured-object or not; exits never / at once / at its n-th poll / at a "
        "simulated time), mark a job exited, jobs [--posix], fg / bg / disown with no argument, +, -, valid, out-of-range, zero, negative, non-numeric, empty and surplus arguments (disown also -c), "
        "_clear_dead_jobs, get_next_task - each on the main thread or on a fresh alias thread; alias sessions (own thread-local table + main-table commands from inside); concurrent blocks (main thread "
        "spinning in get_next_task and starting jobs, 1-2 alias threads running jobs/bg/disown, exits at simulated times) under a seeded scheduler with line pre-emption in jobs.py. "
        "non-trivial = a table of >= 3 jobs was reached or a job exited inside a command or a concurrent block ran; distinct = distinct (step kinds, arguments, thread kinds, schedule digest) histories"
    )
    state_measure = "distinct (step kind, argument class, thread kind, table size bucket, dead-unpurged jobs present, outcome) tuples"
    assumptions = [
        "sequential steps are judged against a reference model that purges finished jobs exactly where the documented commands do (start, jobs, fg, bg, table clean-up, next-task); disown does not purge: on a finished-but-unpurged job it may remove it or call it invalid",
        "the documented selection: no argument or + = most recently used job, - = the one before, N = job N; a new job is the most recently used one; fg/bg/next-task move their job to the front",
        "an error reply is a non-empty message in the (out, err) tuple or a non-zero SystemExit from the argument parser; it must leave the table as it was (apart from purging finished jobs)",
        "`disown` with several ids is generated but only the table invariants are judged (whether ids before an invalid one are processed differs between shells)",
        "in concurrent blocks only invariants are judged after the threads finished: MRU order = permutation of the registered job numbers, every live job that nobody disowned is still registered exactly once under its number, no removed job is back, nothing invented, no exception in any thread",
        "fg is unthreadable and therefore only issued from the main thread; jobs/bg/disown from both",
    ]
    components = {
        "real": ["procs.jobs add_job / get_next_job_number / _clear_dead_jobs / get_next_task / get_task / resume_job / fg / bg / disown (ArgParserAlias) / disown_fn / jobs / format_job_string / print_one_job / use_main_jobs / get_jobs / get_tasks / _continue / _send_signal", "real threads with real threading.local under the SimKernel"],
        "stub": ["process objects (poll() scripted: exit flag, exit at n-th poll, exit at simulated time)", "pipeline objects (resume() recorded)", "os.killpg / os.kill in jobs.py (recorded)", "scheduler, clock"],
    }
    expected_probes = ["table_ge3", "exit_observed_by_purge", "exit_inside_command", "lowest_free_reused", "select_plus", "select_minus", "select_number", "invalid_argument", "error_on_empty_table", "alias_thread_step", "alias_session", "concurrent_block", "concurrent_disown", "concurrent_bg", "dead_unpurged_disown", "posix_listing", "sigcont_sent", "interactive_print"]

    def warmup(self):
        procworld.warm(extra_traced=())
        import xonsh.procs.jobs as xj

        self.xj = xj
        self.sig_log = []

        def killpg(pg, sig):
            self.sig_log.append(("killpg", pg, int(sig)))

        def kill(pid, sig):
            self.sig_log.append(("kill", pid, int(sig)))

        xj.os = _k.ModProxy(xj.os, killpg=killpg, kill=kill)

    # ------------------------------------------------------------------ generation
    def _gen_start(self, rng, conc=False):
        life = rng.choice(("never", "never", "never", "polls", "polls")) if not conc else rng.choice(("never", "time", "time", "polls"))
        return {"k": "start", "bg": rng.random() < 0.6, "susp": rng.random() < 0.25, "obj": rng.random() < 0.15, "life": life, "n": rng.randint(1, 4), "t": rng.choice((0.0005, 0.002, 0.01, 0.05))}

    def _gen_cmd(self, rng, alias_ok=True, fg_ok=True):
        cmd = rng.choice(("jobs", "bg", "disown", "fg") if fg_ok else ("jobs", "bg", "disown"))
        args = list(rng.choice(ARGS)) if cmd != "jobs" else (["--posix"] if rng.random() < 0.5 else [])
        if cmd == "disown" and rng.random() < 0.15:
            args = ["-c"] + args
        return {"k": cmd, "args": args}

    def _gen_step(self, rng):
        r = rng.random()
        th = "alias" if rng.random() < 0.35 else "main"
        if r < 0.30:
            op = self._gen_start(rng)
        elif r < 0.40:
            op = {"k": "exit", "which": rng.randrange(8)}
        elif r < 0.72:
            op = self._gen_cmd(rng)
            if op["k"] == "fg":
                th = "main"
        elif r < 0.78:
            op = {"k": "clear"}
        elif r < 0.86:
            op = {"k": "next"}
        elif r < 0.92:
            # a thread with its own table that also talks to the main table
            sub = []
            for _ in range(rng.randint(2, 6)):
                q = rng.random()
                if q < 0.4:
                    sub.append(self._gen_start(rng))
                elif q < 0.5:
                    sub.append({"k": "exit", "which": rng.randrange(4)})
                elif q < 0.6:
                    sub.append({"k": "next"})
                elif q < 0.65:
                    sub.append({"k": "clear"})
                else:
                    sub.append(dict(self._gen_cmd(rng, fg_ok=False), main_table=True))
            return {"k": "session", "ops": sub}
        else:
            blk = {"k": "conc", "main": [], "alias": []}
            for _ in range(rng.randint(1, 5)):
                blk["main"].append(rng.choice(({"k": "next"}, {"k": "next"}, {"k": "clear"}, self._gen_start(rng, conc=True))))
            for _ in range(rng.randint(1, 2)):
                blk["alias"].append([self._gen_cmd(rng, fg_ok=False) for _ in range(rng.randint(1, 2))])
            blk["exits"] = [{"which": rng.randrange(8), "t": rng.choice((0.0, 0.0003, 0.001, 0.004, 0.02))} for _ in range(rng.randint(0, 3))]
            return blk
        op["th"] = th
        return op

    def gen_case(self, rng, tier, seed):
        n = rng.choice((4, 6, 9, 14, 20)) if tier == "quick" else rng.choice((6, 12, 20, 30))
        ops = [self._gen_start(rng) for _ in range(rng.choice((0, 1, 2, 3)))]
        for o in ops:
            o["th"] = "main"
        ops += [self._gen_step(rng) for _ in range(n)]
        ops.append({"k": "jobs", "args": [], "th": "main"})
        knobs = {
            "p": rng.choice((0.02, 0.1, 0.3, 0.6)),
            "policy": rng.choice(("random", "random", "pct", "rr", "starve")),
            "victim": rng.randrange(1, 4),
            "pct_points": sorted(rng.randrange(1, 800) for _ in range(rng.choice((1, 2, 3)))),
            "clock_seed": rng.randrange(1 << 30),
            "max_steps": 400000,
        }
        return {"seed": seed, "interactive": rng.random() < 0.5, "auto_continue": rng.random() < 0.3, "ops": ops, "knobs": knobs}

    def simplify(self, case):
        for i, op in enumerate(case["ops"]):
            if op["k"] == "conc":
                for part in ("main", "alias", "exits"):
                    for j in range(len(op[part])):
                        c = copy.deepcopy(case)
                        del c["ops"][i][part][j]
                        yield c
            if op["k"] == "session":
                for j in range(len(op["ops"])):
                    c = copy.deepcopy(case)
                    del c["ops"][i]["ops"][j]
                    yield c
            if op.get("th") == "alias":
                c = copy.deepcopy(case)
                c["ops"][i]["th"] = "main"
                yield c

    # ------------------------------------------------------------------ actual-state helpers
    def _actual(self, jobs, tasks):
        return {"mru": list(tasks), "jobs": {n: (j.get("uid"), bool(j["bg"]), j["status"]) for n, j in sorted(jobs.items())}}

    def _viol(self, clause, msg, **sig):
        self.V.append({"clause": clause, "msg": f"step {self.step} [{self.cur}]: {msg}", "sig": sig})

    # ------------------------------------------------------------------ real operations (run on whatever thread calls them)
    def _do_start(self, op, table_name):
        xj = self.xj
        self.uid += 1
        uid = self.uid
        proc = _Proc(uid, self)
        if op["life"] == "polls":
            proc.die_after_polls = op["n"]
        elif op["life"] == "time":
            proc.die_at = self.k.now + op["t"]
        pipe = _Pipe(uid, "object" if op["obj"] else "hiddenobject", self.resume_log)
        info = {"cmds": [["sim", str(uid)]], "pids": [proc.pid], "status": "suspended" if op["susp"] else "running", "obj": proc, "bg": op["bg"], "pipeline": pipe, "pgrp": pipe.term_pgid, "uid": uid}
        self.procs[uid] = proc
        self.where[uid] = table_name
        out = io.StringIO()
        so = sys.stdout
        sys.stdout = out
        try:
            xj.add_job(info)
        finally:
            sys.stdout = so
        return uid, info, out.getvalue()

    def _do_cmd(self, op):
        """-> (reply, exc) ; reply = ("tuple", out, err) | ("exit", code) | ("none",)"""
        xj = self.xj
        fn = {"jobs": xj.jobs, "fg": xj.fg, "bg": xj.bg, "disown": xj.disown}[op["k"]]
        out = io.StringIO()
        so, se = sys.stdout, sys.stderr
        cap_o, cap_e = io.StringIO(), io.StringIO()
        sys.stdout, sys.stderr = cap_o, cap_e
        try:
            if op["k"] == "jobs":
                r = fn(list(op["args"]), stdout=out)
            else:
                r = fn(list(op["args"]))
        except SystemExit as e:
            return ("exit", e.code if isinstance(e.code, int) else 1, cap_e.getvalue()), None
        except Exception as e:  # noqa: BLE001
            return None, f"{type(e).__name__}: {e}\n{traceback.format_exc()[-900:]}"
        finally:
            sys.stdout, sys.stderr = so, se
        if op["k"] == "jobs":
            return ("listing", out.getvalue()), None
        if r is None:
            return ("none", cap_o.getvalue()), None
        if isinstance(r, tuple):
            r = tuple(r) + (None,) * (2 - len(r))
            return ("tuple", r[0] or "", r[1] or ""), None
        return ("str", str(r)), None

    # ------------------------------------------------------------------ reference model transitions
    def _purge(self, T):
        dead = [n for n, j in T.jobs.items() if self.procs[j["uid"]].returncode is not None]
        for n in dead:
            del T.jobs[n]
        T.mru = [n for n in T.mru if n not in dead]
        return dead

    @staticmethod
    def _lowest_free(T):
        i = 1
        while i in T.jobs:
            i += 1
        return i

    def _select(self, T, args):
        """-> ("ok", num) | ("err", why)"""
        if not T.mru:
            return ("err", "empty")
        if len(args) == 0:
            return ("ok", T.mru[0])
        if len(args) > 1:
            return ("err", "surplus")
        a = args[0]
        if a == "+":
            self.probes["select_plus"] += 1
            return ("ok", T.mru[0])
        if a == "-":
            self.probes["select_minus"] += 1
            return ("ok", T.mru[1]) if len(T.mru) > 1 else ("err", "no second job")
        try:
            n = int(a)
        except ValueError:
            return ("err", "not a number")
        if n in T.jobs:
            self.probes["select_number"] += 1
            return ("ok", n)
        return ("err", "no such job")

    # ------------------------------------------------------------------ one sequential step, judged
    def _seq_step(self, op, T, jobs, tasks, tname, th):
        """Run op on the current thread against the table (jobs, tasks) modelled by T."""
        k = op["k"]
        before = self._actual(jobs, tasks)
        doomed = [n for n, j in T.jobs.items() if self.procs[j["uid"]].doomed()]
        nres, nsig = len(self.resume_log), len(self.sig_log)
        base = {"op": k, "thread": th, "table": tname}
        size = len(T.jobs)
        if size >= 3:
            self.probes["table_ge3"] += 1
            self.nontrivial = True
        if k == "start":
            free_before = self._lowest_free(T)
            uid, info, printed = self._do_start(op, tname)
            dead = self._purge(T)
            num = self._lowest_free(T)
            if dead and num < free_before:
                self.probes["lowest_free_reused"] += 1
            T.jobs[num] = {"uid": uid, "bg": op["bg"], "status": "suspended" if op["susp"] else "running"}
            T.mru.insert(0, num)
            got = [n for n, j in jobs.items() if j.get("uid") == uid]
            if got != [num]:
                self._viol("number.lowest_free", f"new job registered under {got}, the lowest free number is {num} (table before: {before})", **base)
            if self.interactive and op["bg"] and not op["obj"]:
                self.probes["interactive_print"] += 1  # (goes to the stream bound when jobs.py was imported: not compared)
        elif k == "exit":
            live = sorted(T.jobs)
            if not live:
                return
            n = live[op["which"] % len(live)]
            self.procs[T.jobs[n]["uid"]].dead_flag = True
            self.note(f"exit:{n}")
            return
        elif k == "clear":
            try:
                self.xj._clear_dead_jobs()
            except Exception as e:  # noqa: BLE001
                self._viol("never.raises", f"_clear_dead_jobs raised {type(e).__name__}: {e}", **base, exc=type(e).__name__)
                return
            self._purge(T)
        elif k == "next":
            try:
                got = self.xj.get_next_task()
            except Exception as e:  # noqa: BLE001
                self._viol("never.raises", f"get_next_task raised {type(e).__name__}: {e}\n{traceback.format_exc()[-600:]}", **base, exc=type(e).__name__)
                return
            self._purge(T)
            sel = next((n for n in T.mru if not T.jobs[n]["bg"] and T.jobs[n]["status"] == "running"), None)
            if sel is not None:
                T.mru.remove(sel)
                T.mru.insert(0, sel)
            gu = got.get("uid") if got else None
            wu = T.jobs[sel]["uid"] if sel is not None else None
            if gu != wu:
                self._viol("select.documented", f"get_next_task returned job uid {gu}, the first running foreground job in MRU order is uid {wu} (before: {before})", **base)
        else:
            reply, exc = self._do_cmd(op)
            args = [a for a in op["args"] if a not in ("-c", "--posix")]
            base["arg"] = "none" if not args else "many" if len(args) > 1 else args[0] if args[0] in ("+", "-") else "num" if args[0].lstrip("-").isdigit() else "bad"
            if exc is not None:
                self._viol("never.raises", f"{k} {op['args']} raised {exc} (table before: {before})", **base, exc=exc.split(":")[0])
                return
            if k == "jobs":
                self._purge(T)
                self._judge_listing(op, reply[1], T, base)
            elif k in ("fg", "bg"):
                self._purge(T)
                sel = self._select(T, args)
                err = (reply[0] == "tuple" and bool(reply[2].strip())) or (reply[0] == "exit" and reply[1] != 0)
                if sel[0] == "err":
                    self.probes["invalid_argument" if sel[1] != "empty" else "error_on_empty_table"] += 1
                    if not err:
                        self._viol("error.reported", f"{k} {op['args']} cannot select a job ({sel[1]}) but replied {reply!r} (before: {before})", **base, why=sel[1])
                else:
                    n = sel[1]
                    if err:
                        self._viol("select.documented", f"{k} {op['args']} should select job {n} but replied with an error {reply!r} (before: {before})", **base)
                    else:
                        T.mru.remove(n)
                        T.mru.insert(0, n)
                        T.jobs[n]["bg"] = k == "bg"
                        T.jobs[n]["status"] = "running"
                        want = ("resume", T.jobs[n]["uid"], T.jobs[n]["uid"], k == "fg")
                        got = self.resume_log[nres:]
                        if got != [want]:
                            self._viol("select.documented", f"{k} {op['args']} should resume job {n} (uid {want[1]}, tee={want[3]}); resume calls: {got} (before: {before})", **base)
                        if k == "bg":
                            self.probes["sigcont_sent"] += 1
                            sent = self.sig_log[nsig:]
                            if ("killpg", 5000 + T.jobs[n]["uid"], int(signal.SIGCONT)) not in sent:
                                self._viol("select.documented", f"bg {op['args']} selected job {n} but SIGCONT went to {sent}", **base)
            elif k == "disown":
                okreply = reply[0] == "str" and "Removed job" in reply[1]
                err = (reply[0] == "tuple" and bool(reply[2].strip())) or (reply[0] == "exit" and reply[1] != 0)
                if len(args) > 1:
                    # several ids: invariants only; adopt the actual table
                    self._adopt(T, jobs, tasks)
                else:
                    sel = self._select(T, args) if not (args and args[0] in ("+", "-", "")) else ("err", "not a job id")
                    if sel[0] == "ok" and self.procs[T.jobs[sel[1]]["uid"]].returncode is None and self.procs[T.jobs[sel[1]]["uid"]].doomed():
                        self.probes["dead_unpurged_disown"] += 1
                    if sel[0] == "err":
                        self.probes["invalid_argument" if sel[1] != "empty" else "error_on_empty_table"] += 1
                        if not err:
                            self._viol("error.reported", f"disown {op['args']} cannot select a job ({sel[1]}) but replied {reply!r} (before: {before})", **base, why=sel[1])
                    else:
                        n = sel[1]
                        if not okreply or f"Removed job {n} " not in reply[1]:
                            self._viol("select.documented", f"disown {op['args']} should remove job {n}; reply {reply!r} (before: {before})", **base)
                        else:
                            st = T.jobs[n]["status"]
                            del T.jobs[n]
                            T.mru.remove(n)
                            self.disowned.add(before["jobs"][n][0])
                            if (self.auto_continue or "-c" in op["args"]) and ("killpg", 5000 + before["jobs"][n][0], int(signal.SIGCONT)) not in self.sig_log[nsig:]:
                                self._viol("select.documented", f"disown with auto-continue did not continue job {n}", **base)
                            del st
        if any(self.procs[u].returncode is not None for u in [before["jobs"][n][0] for n in doomed if n in before["jobs"]]) and k not in ("exit",):
            self.probes["exit_inside_command"] += 1
            self.nontrivial = True
        self._compare(T, jobs, tasks, before, base)

    def _adopt(self, T, jobs, tasks):
        a = self._actual(jobs, tasks)
        T.jobs = {n: {"uid": u, "bg": b, "status": s} for n, (u, b, s) in a["jobs"].items()}
        T.mru = [n for n in a["mru"] if n in T.jobs]

    def _compare(self, T, jobs, tasks, before, base):
        a = self._actual(jobs, tasks)
        self.states.add((base["op"], base.get("arg"), base["thread"], min(len(T.jobs), 4)))
        self.note(f"{base['op']}:{a['mru']}")
        if len(set(a["mru"])) != len(a["mru"]) or set(a["mru"]) != set(a["jobs"]):
            self._viol("mru.permutation", f"MRU order {a['mru']} is not a permutation of the registered jobs {sorted(a['jobs'])} (before: {before})", **base)
            self._adopt(T, jobs, tasks)
            return
        want = {n: (j["uid"], j["bg"], j["status"]) for n, j in sorted(T.jobs.items())}
        if a["jobs"] != want:
            missing = sorted(set(want) - set(a["jobs"]))
            extra = sorted(set(a["jobs"]) - set(want))
            clause = "error.unaltered" if base["op"] in ("fg", "bg", "disown") else "table.model"
            self._viol(clause, f"table is {a['jobs']}, the reference model says {want} (missing {missing}, unexpected {extra}; before: {before})", **base)
            self._adopt(T, jobs, tasks)
            return
        if a["mru"] != T.mru:
            self._viol("mru.order", f"MRU order is {a['mru']}, the reference model says {T.mru} (before: {before})", **base)
            self._adopt(T, jobs, tasks)

    def _judge_listing(self, op, text, T, base):
        lines = [ln for ln in text.split("\n") if ln.strip()]
        posix = "--posix" in op["args"]
        nums = []
        for ln in lines:
            try:
                nums.append(int(ln.split("]")[0].lstrip("[")) if posix else int(ln.split("'num': ")[1].split(",")[0]))
            except Exception:  # noqa: BLE001
                nums.append(ln)
        if nums != T.mru:
            self._viol("jobs.listing", f"`jobs {' '.join(op['args'])}` lists {nums}, live jobs in MRU order are {T.mru}: {text!r}", **base)
            return
        if posix:
            self.probes["posix_listing"] += 1
            for i, ln in enumerate(lines):
                mark = ln.split("]")[1][:1]
                want = "+" if i == 0 else "-" if i == 1 else " "
                n = T.mru[i]
                if mark != want or (" &" in ln) != T.jobs[n]["bg"] or f"{T.jobs[n]['status']}:" not in ln:
                    self._viol("jobs.listing", f"`jobs --posix` line {ln!r}: expected mark {want!r}, bg={T.jobs[n]['bg']}, status {T.jobs[n]['status']}", **base)
                    return

    # ------------------------------------------------------------------ run
    def note(self, s):
        self.k.note(s)

    def _on_thread(self, fn):
        """Run fn on a fresh alias thread (under the kernel) and wait for it."""
        import threading

        box = []

        def body():
            try:
                fn()
            except BaseException as e:  # noqa: B902
                if isinstance(e, _k.SimExit):
                    raise
                box.append(f"{type(e).__name__}: {e}\n{traceback.format_exc()[-900:]}")

        th = threading.Thread(target=body)
        th.start()
        th.join()
        if box:
            raise RuntimeError("alias thread: " + box[0])

    def run_case(self, case, tape, emit):
        ctx = procworld.RunCtx(case["seed"], case["knobs"], tape, emit)
        XSH = ctx.XSH
        xj = self.xj
        env = XSH.env
        env["XONSH_INTERACTIVE"] = self.interactive = case["interactive"]
        env["AUTO_CONTINUE"] = self.auto_continue = case["auto_continue"]
        XSH.all_jobs.clear()
        xj._tasks_main.clear()
        for attr in ("tasks", "jobs"):
            if hasattr(xj._jobs_thread_local, attr):
                delattr(xj._jobs_thread_local, attr)
        self.V = []
        self.probes = {k: 0 for k in self.expected_probes}
        self.states = set()
        self.nontrivial = False
        self.uid = 0
        self.procs = {}
        self.where = {}
        self.resume_log = []
        self.disowned = set()
        del self.sig_log[:]
        self.step = -1
        self.cur = ""
        ctx.partial = {"summary": {}, "abort_sig": {"where": "jobs"}}
        ctx.start()
        self.k = k = ctx.k
        M = _Table()
        try:
            for i, op in enumerate(case["ops"]):
                if self.V:
                    break
                self.step = i
                kind = op["k"]
                self.cur = f"{kind} {op.get('args', '')} on {op.get('th', '-')}"
                if kind == "session":
                    self._session(op, M)
                elif kind == "conc":
                    self._concurrent(op, M, ctx)
                elif op.get("th") == "alias" and kind in ("jobs", "bg", "disown", "clear", "next", "start", "exit"):
                    self.probes["alias_thread_step"] += 1
                    if kind in ("jobs", "bg", "disown"):
                        # these aliases switch to the main table themselves
                        self._on_thread(lambda op=op: self._seq_step(op, M, XSH.all_jobs, xj._tasks_main, "main", "alias"))
                    elif kind == "exit":
                        self._seq_step(op, M, XSH.all_jobs, xj._tasks_main, "main", "main")
                    else:
                        # a fresh thread has a fresh, empty table of its own
                        def local(op=op):
                            L = _Table()
                            self._seq_step(op, L, xj.get_jobs(), xj.get_tasks(), "local", "alias")
                            if xj.get_jobs() is XSH.all_jobs or xj.get_tasks() is xj._tasks_main:
                                self._viol("thread.local", "an alias thread works on the main thread's table outside use_main_jobs()", op=kind, thread="alias", table="local")

                        self._on_thread(local)
                        self._compare(M, XSH.all_jobs, xj._tasks_main, None, {"op": "after-local-" + kind, "thread": "alias", "table": "main"})
                else:
                    self._seq_step(op, M, XSH.all_jobs, xj._tasks_main, "main", "main")
        except BaseException as e:  # noqa: B902
            if isinstance(e, _k.SimExit):
                raise
            return {"harness_error": f"step {self.step} {self.cur}: {traceback.format_exc()[-1500:]}"}
        k.stop()
        res = ctx.base_result()
        if ctx.thread_excs and not self.V:
            self._viol("never.raises", "exception in a thread:\n" + ctx.thread_excs[0], op="thread", thread="alias", table="main", exc="thread")
        seen = set()
        V = []
        for v in self.V:
            key = (v["clause"], repr(sorted(v["sig"].items())))
            if key not in seen:
                seen.add(key)
                V.append(v)
        res["violations"] = V[:4]
        res["probes"].update(self.probes)
        res["faults"] = {"exit_inside_command": self.probes["exit_inside_command"], "concurrent_block": self.probes["concurrent_block"], "dead_unpurged_disown": self.probes["dead_unpurged_disown"]}
        res["nontrivial"] = self.nontrivial
        res["states"] = [hashlib.sha1(repr(s).encode()).hexdigest()[:12] for s in self.states]
        shape = tuple((o["k"], tuple(o.get("args", ())), o.get("th")) for o in case["ops"])
        res["key"] = hashlib.sha1((repr(shape) + res["digest"]).encode()).hexdigest()[:16]
        res["summary"] = {"steps": len(case["ops"])}
        return res

    # ------------------------------------------------------------------ alias session: own table + main-table commands
    def _session(self, op, M):
        xj = self.xj
        XSH = procworld._WARM["XSH"]
        self.probes["alias_session"] += 1

        def body():
            L = _Table()
            lj, lt = xj.get_jobs(), xj.get_tasks()
            if lj is XSH.all_jobs or lt is xj._tasks_main:
                self._viol("thread.local", "a fresh alias thread starts with the main thread's table", op="session", thread="alias", table="local")
                return
            for j, sub in enumerate(op["ops"]):
                if self.V:
                    return
                self.cur = f"session/{j} {sub['k']} {sub.get('args', '')}"
                if sub.get("main_table"):
                    self._seq_step(sub, M, XSH.all_jobs, xj._tasks_main, "main", "alias")
                    if xj.get_jobs() is not lj or xj.get_tasks() is not lt:
                        self._viol("thread.local", f"after `{sub['k']}` the alias thread's own table was not restored", op=sub["k"], thread="alias", table="local")
                        return
                    self._compare(L, lj, lt, None, {"op": "after-main-" + sub["k"], "thread": "alias", "table": "local"})
                else:
                    self._seq_step(sub, L, lj, lt, "local", "alias")
                    self._compare(M, XSH.all_jobs, xj._tasks_main, None, {"op": "after-local-" + sub["k"], "thread": "alias", "table": "main"})

        self._on_thread(body)

    # ------------------------------------------------------------------ concurrent block
    def _concurrent(self, op, M, ctx):
        import threading

        xj = self.xj
        XSH = ctx.XSH
        k = self.k
        self.probes["concurrent_block"] += 1
        self.nontrivial = True
        jobs, tasks = XSH.all_jobs, xj._tasks_main
        before = self._actual(jobs, tasks)
        live = sorted(M.jobs)
        for ex in op["exits"]:
            if live:
                n = live[ex["which"] % len(live)]
                p = self.procs[M.jobs[n]["uid"]]
                if p.die_at is None:
                    p.die_at = k.now + ex["t"]
        errors = []
        removed_msgs = []
        maybe_removed = set()
        started = []

        def alias_body(cmds):
            for c in cmds:
                reply, exc = self._do_cmd(c)
                if exc is not None:
                    errors.append((c, exc))
                    return
                if c["k"] == "disown":
                    self.probes["concurrent_disown"] += 1
                    if reply[0] == "str":
                        removed_msgs.append(reply[1])
                    ids = [a for a in c["args"] if a != "-c"]
                    if len(ids) > 1:
                        # several ids, one of them invalid: the ones before it may have been processed (not judged)
                        maybe_removed.update(int(a) for a in ids if a.lstrip("-").isdigit())
                elif c["k"] == "bg":
                    self.probes["concurrent_bg"] += 1

        ths = [threading.Thread(target=alias_body, args=(cmds,)) for cmds in op["alias"]]
        for t in ths:
            t.start()
        for m in op["main"]:
            try:
                if m["k"] == "next":
                    xj.get_next_task()
                elif m["k"] == "clear":
                    xj._clear_dead_jobs()
                else:
                    uid, _info, _p = self._do_start(m, "main")
                    started.append(uid)
            except Exception as e:  # noqa: BLE001
                errors.append((m, f"{type(e).__name__}: {e}\n{traceback.format_exc()[-900:]}"))
                break
        for t in ths:
            t.join()
        base = {"op": "conc", "thread": "both", "table": "main"}
        if errors:
            c, exc = errors[0]
            self._viol("never.raises", f"in a concurrent block {c['k']} {c.get('args', '')} raised {exc} (before: {before}; alias commands {op['alias']}, main {[m['k'] for m in op['main']]})", **base, cmd=c["k"], exc=exc.split(":")[0])
            self._adopt(M, jobs, tasks)
            return
        a = self._actual(jobs, tasks)
        self.note(f"conc:{a['mru']}")
        if len(set(a["mru"])) != len(a["mru"]) or set(a["mru"]) != set(a["jobs"]):
            self._viol("mru.permutation", f"after a concurrent block the MRU order {a['mru']} is not a permutation of the registered jobs {sorted(a['jobs'])} (before: {before}; alias commands {op['alias']}, main {[m['k'] for m in op['main']]})", **base, cmds=",".join(sorted({c["k"] for cs in op["alias"] for c in cs})))
            self._adopt(M, jobs, tasks)
            return
        removed_nums = set(maybe_removed)
        for msg in removed_msgs:
            for part in msg.split("Removed job ")[1:]:
                removed_nums.add(int(part.split(" ")[0]))
        uids_now = {u: n for n, (u, _b, _s) in a["jobs"].items()}
        if len(uids_now) != len(a["jobs"]):
            self._viol("number.unique", f"one job is registered under two numbers: {a['jobs']}", **base)
        known = {j["uid"] for j in M.jobs.values()} | set(started)
        for u in uids_now:
            if u not in known:
                self._viol("table.model", f"job uid {u} appeared from nowhere: {a['jobs']}", **base)
        for n, j in M.jobs.items():
            u = j["uid"]
            p = self.procs[u]
            if p.returncode is None and n not in removed_nums and uids_now.get(u) != n:
                self._viol("live.kept", f"live job {n} (uid {u}) is {'missing' if u not in uids_now else 'now numbered ' + str(uids_now[u])} after a concurrent block (before: {before}, after: {a}; alias commands {op['alias']}, main {[m['k'] for m in op['main']]}; disown replies {removed_msgs})", **base, cmds=",".join(sorted({c["k"] for cs in op["alias"] for c in cs})))
                break
        for u in started:
            if self.procs[u].returncode is None and u not in uids_now and not removed_nums:
                self._viol("live.kept", f"job uid {u} started during a concurrent block is not registered: {a}", **base, cmds="start")
                break
        for u, n in uids_now.items():
            if u in self.disowned:
                self._viol("table.model", f"disowned job uid {u} is back in the table as {n}", **base)
        for n in removed_nums:
            u = before["jobs"].get(n, (None,))[0]
            if u is not None and u not in uids_now:
                self.disowned.add(u)
        self._adopt(M, jobs, tasks)


ENGINE = C20()
