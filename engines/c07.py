"""C07 - redirections and pipes deliver each stream to exactly the documented place.

Every stage writes tagged line records s<i>:o:<j> to stdout and s<i>:e:<j> to stderr and
forwards its stdin to stdout.  A dataflow model computes, per sink (files, next stage's stdin,
capture, terminal out/err), the records expected; the real wiring runs under the SimKernel.
"""

import copy
import hashlib
import os
import re
import traceback

from simkit import procworld, simproc
from simkit.engine import Engine

OUT_NAMES = ("", "o", "out", "1")
ERR_NAMES = ("e", "err", "2")
ALL_NAMES = ("a", "all", "&")
E2O = ("err>out", "err>&1", "2>out", "err>o", "err>1", "e>out", "e>&1", "2>&1", "e>o", "2>o", "e>1", "2>1")
REC_ARG = __import__("re").compile(r"r\d+")
O2E = ("out>err", "out>&2", "1>err", "out>e", "out>2", "o>err", "o>&2", "1>&2", "o>e", "1>e", "o>2", "1>2")
A2P = ("a>p", "all>p")
E2P = ("e>p", "err>p", "2>p")
FORMS = ("bare", "![]", "$[]", "$()", "!()")
REC = re.compile(r"^s(\d+):([oe]):(\d+)$")


class C07(Engine):
    property_id = "C07"
    level = "exploration"
    budgets = {
        "quick": {"runs": 14000, "wall": 80, "min_runs": 150, "min_wall": 30},
        "thorough": {"runs": 150000, "wall": 1500, "min_runs": 400, "min_wall": 90},
    }
    rule = (
        "case = capture form x 1-3 stages (SimProc, threaded alias, unthreaded alias) x per-stage redirect set drawn from the complete spelling table "
        "(>,o>,out>,1> / >> / e>,err>,2> / a>,all>,&> / the 12 e>o and 12 o>e spellings / a>p,all>p / e>p,err>p,2>p / <) with existing, missing and "
        "unwritable targets, plus conflicting / malformed sets x record counts x schedule knobs. non-trivial = >=1 redirect and >=2 record-bearing streams; "
        "distinct = distinct (form, stage kinds, redirect operator classes+spellings, schedule digest)"
    )
    state_measure = "distinct (form, stage kinds, (operator class, spelling, target kind) per stage)"
    assumptions = [
        "relative order of two different streams merged into one sink is unspecified; per-stream order must be kept",
        "child processes are SimProc stubs inheriting exactly fds 0/1/2; the terminal is a pair of scratch files",
        "stderr of a captured !() last stage is judged in r.err (it is not echoed by default)",
    ]
    components = {
        "real": ["lexer/tokenizer redirect tokens", "parser", "procs.specs (_redirect_streams, cmds_to_specs, pipe wiring)", "procs.proxies (_get_handles, _pick_buf)", "procs.pipelines", "real files and pipes"],
        "stub": ["child processes (SimProc)", "scheduler", "clock", "terminal (scratch files)"],
    }
    expected_probes = ["redirect_to_file", "append_mode", "merge_e2o", "merge_o2e", "err_to_pipe", "all_to_pipe", "stdin_from_file", "malformed_set", "alias_stage_redirected"]

    def warmup(self):
        procworld.warm()

    # ------------------------------------------------------------------ generation
    def gen_redirs(self, rng, i, n):
        """List of redirect dicts for stage i of n."""
        out = []
        r = rng.random()
        last = i == n - 1
        classes = []
        if r < 0.35:
            classes = []
        else:
            pool = ["out", "err", "all", "e2o", "o2e"]
            if not last:
                pool += ["e2p", "a2p"]
            if i == 0:
                pool += ["in"]
            classes = [rng.choice(pool)]
            if rng.random() < 0.3:
                classes.append(rng.choice(pool))
            if rng.random() < 0.08:
                classes.append(rng.choice(pool + ["out", "e2p"]))  # often a conflicting set
            if "e2o" in classes and "o2e" in classes:
                classes = [c for c in classes if c != "o2e"]  # (1>&2 2>&1 is order dependent in POSIX shells; not specified here)
            # a merge operator together with an explicit destination for the stream it merges INTO, or with a
            # pipe redirect, is order dependent in POSIX shells and not specified by the statement: not generated
            if "o2e" in classes:
                classes = [c for c in classes if c not in ("err", "all", "e2p", "a2p")]
            if "e2o" in classes:
                classes = [c for c in classes if c not in ("all", "e2p", "a2p")]
        for c in classes:
            tgt_kind = rng.choice(("new", "new", "existing", "existing", "nodir"))
            if c == "out":
                out.append({"cls": "out", "sp": rng.choice(OUT_NAMES) + rng.choice((">", ">", ">>")), "tk": tgt_kind})
            elif c == "err":
                out.append({"cls": "err", "sp": rng.choice(ERR_NAMES) + rng.choice((">", ">", ">>")), "tk": tgt_kind})
            elif c == "all":
                out.append({"cls": "all", "sp": rng.choice(ALL_NAMES) + rng.choice((">", ">", ">>")), "tk": tgt_kind})
            elif c == "e2o":
                out.append({"cls": "e2o", "sp": rng.choice(E2O)})
            elif c == "o2e":
                out.append({"cls": "o2e", "sp": rng.choice(O2E)})
            elif c == "e2p":
                out.append({"cls": "e2p", "sp": rng.choice(E2P)})
            elif c == "a2p":
                out.append({"cls": "a2p", "sp": rng.choice(A2P)})
            elif c == "in":
                out.append({"cls": "in", "sp": "<", "tk": rng.choice(("existing", "existing", "missing"))})
        return out

    def gen_case(self, rng, tier, seed):
        form = rng.choice(FORMS)
        n = rng.choices((1, 2, 3, 4), (8, 8, 5, 1))[0]
        stages = []
        for i in range(n):
            kind = rng.choices(("proc", "alias", "ualias", "uproc"), (6, 3, 1 if n == 1 else 0, 1 if i == n - 1 else 0))[0]
            stages.append(
                {
                    "kind": kind,
                    "no": rng.choice((0, 1, 3, 20, 64)),
                    "ne": rng.choice((0, 1, 3, 20)),
                    "rc": 0,
                    "redirs": self.gen_redirs(rng, i, n),
                    "pause": rng.choice((0, 0, 1e-4, 0.01)),
                }
            )
        if n >= 3 and rng.random() < 0.25:
            # the documented `cmd o> file e>p | next` form on an EARLY stage of a longer pipeline: what one stage's
            # wiring decides must not leak into the wiring of the stages after it
            j = rng.randrange(0, n - 2)
            stages[j]["redirs"] = [
                {"cls": "out", "sp": rng.choice(OUT_NAMES) + rng.choice((">", ">", ">>")), "tk": rng.choice(("new", "existing"))},
                {"cls": "e2p", "sp": rng.choice(E2P)},
            ]
            stages[j]["ne"] = max(stages[j]["ne"], 1)
            stages[j + 1]["no"] = max(stages[j + 1]["no"], 1)
        knobs = {
            "p": rng.choice((0.0, 0.02, 0.1, 0.3)),
            "policy": rng.choice(("random", "random", "starve", "pct", "nopreempt")),
            "victim": rng.randrange(1, 9),
            "pct_points": sorted(rng.randrange(1, 3000) for _ in range(rng.choice((1, 2, 3)))),
            "pipe_cap": rng.choice((4096, 65536)),
            "proc_freq": rng.choice((1e-4, 1e-3, 1e-5)),
            "clock_seed": rng.randrange(1 << 30),
            "max_steps": 600000,
        }
        return {"seed": seed, "form": form, "stages": stages, "knobs": knobs}

    def simplify(self, case):
        for i in range(len(case["stages"])):
            if len(case["stages"]) > 1:
                c = copy.deepcopy(case)
                del c["stages"][i]
                for st in c["stages"]:
                    st["redirs"] = [r for r in st["redirs"] if r["cls"] not in ("e2p", "a2p")] if st is c["stages"][-1] else st["redirs"]
                if c["stages"][0]["kind"] == "ualias" and len(c["stages"]) > 1:
                    continue
                yield c
            for j in range(len(case["stages"][i]["redirs"])):
                c = copy.deepcopy(case)
                del c["stages"][i]["redirs"][j]
                yield c
            for f in ("no", "ne"):
                if case["stages"][i][f] > 1:
                    c = copy.deepcopy(case)
                    c["stages"][i][f] = 1
                    yield c
        if case["knobs"]["policy"] != "random":
            c = copy.deepcopy(case)
            c["knobs"]["policy"] = "random"
            yield c
        for p in (0.0, 0.02):
            if case["knobs"]["p"] > p:
                c = copy.deepcopy(case)
                c["knobs"]["p"] = p
                yield c

    # ------------------------------------------------------------------ model
    @staticmethod
    def _target(i, j, r):
        return f"t{i}_{j}.txt" if r.get("tk") != "nodir" else f"nodir/t{i}_{j}.txt"

    def _model(self, case):
        """Returns ('error', reason) or ('ok', sinks) with sinks: name -> list of (stream id, [records])."""
        stages = case["stages"]
        n = len(stages)
        form = case["form"]
        final_out = {"bare": "tty_out", "![]": "tty_out", "$[]": "tty_out", "$()": "capture", "!()": "capture"}[form]
        sinks = {}
        pipe_in = None  # list of (stream, records) feeding the next stage's stdin
        for i, st in enumerate(stages):
            last = i == n - 1
            dest_o = "pipe" if not last else final_out
            dest_e = "capture_err" if (last and form == "!()") else "tty_err"
            o_set = e_set = False
            stdin_file = None
            e2o = o2e = e2p = a2p = False
            for j, r in enumerate(st["redirs"]):
                c = r["cls"]
                mode = "a" if r["sp"].endswith(">>") else "w"
                tgt = ("file", self._target(i, j, r), mode, r.get("tk"))
                if c in ("out", "all"):
                    if o_set:
                        return "error", "multiple stdout"
                    o_set = True
                    dest_o = tgt
                if c in ("err", "all"):
                    if e_set:
                        return "error", "multiple stderr"
                    e_set = True
                    dest_e = tgt
                if c in ("out", "err", "all") and r.get("tk") == "nodir":
                    return "error", "unwritable target"
                if c == "e2o":
                    if e_set:
                        return "error", "multiple stderr"
                    e_set = e2o = True
                if c == "o2e":
                    if o_set:
                        return "error", "multiple stdout"
                    o_set = o2e = True
                if c == "e2p":
                    if e_set or last:
                        return "error", "e>p conflict"
                    e_set = e2p = True
                if c == "a2p":
                    if e_set or o_set or last:
                        return "error", "a>p conflict"
                    e_set = o_set = a2p = True
                if c == "in":
                    if stdin_file is not None or i > 0:
                        return "error", "multiple stdin"
                    if r["tk"] == "missing":
                        return "error", "missing stdin file"
                    stdin_file = self._target(i, j, r)
            if o_set and not last and not a2p:
                # stdout diverted (to a file or to stderr) although a pipe follows: xonsh treats the pipe as
                # stdout's destination, so this is a second one - allowed only for a file together with e>p
                if not (e2p and not o2e):
                    return "error", "stdout redirected twice (explicitly and to the pipe)"
            if e2p:
                dest_e = "pipe"
            if a2p:
                dest_o = dest_e = "pipe"
            if e2o:
                dest_e = dest_o
            if o2e:
                dest_o = dest_e
            own_o = [f"s{i}:o:{k}" for k in range(st["no"])]
            own_e = [f"s{i}:e:{k}" for k in range(st["ne"])]
            fwd = []
            if stdin_file is not None:
                fwd = [(f"f:{stdin_file}", [f"s9:o:{k}" for k in range(5)])]
            elif pipe_in is not None:
                fwd = pipe_in
            o_streams = [(f"s{i}:o", own_o)] + [(f"{sid}>s{i}", recs) for sid, recs in fwd]
            e_streams = [(f"s{i}:e", own_e)]
            nxt = []
            for dest, streams in ((dest_o, o_streams), (dest_e, e_streams)):
                if dest == "pipe":
                    nxt += streams
                else:
                    key = dest if isinstance(dest, str) else ("file", dest[1], dest[2], dest[3])
                    sinks.setdefault(key, []).extend(streams)
            pipe_in = nxt if not last else None
            if not last and not nxt:
                pipe_in = []
        return "ok", sinks

    # ------------------------------------------------------------------ run
    def run_case(self, case, tape, emit):
        ctx = procworld.RunCtx(case["seed"], case["knobs"], tape, emit)
        XSH = ctx.XSH
        env = XSH.env
        env["XONSH_PROC_FREQUENCY"] = case["knobs"]["proc_freq"]
        env["XONSH_SUBPROC_RAISE_ERROR"] = False
        env["XONSH_SUBPROC_CMD_RAISE_ERROR"] = False
        stages = case["stages"]
        received = {}
        parts = []
        probes = {k: 0 for k in self.expected_probes}
        pre = {}
        for i, st in enumerate(stages):
            name = {"proc": "rp", "uproc": "ru", "alias": "ra", "ualias": "rua"}[st["kind"]] + str(i)
            if st["kind"] in ("proc", "uproc"):
                ctx.add_stub(name, unthreadable=(st["kind"] == "uproc"))
                script = []
                for k in range(max(st["no"], st["ne"])):
                    if k < st["no"]:
                        script.append(["outb", 1, f"s{i}:o:{k}\n"])
                    if k < st["ne"]:
                        script.append(["outb", 2, f"s{i}:e:{k}\n"])
                    if st["pause"] and k == 1:
                        script.append(["sleep", st["pause"]])
                script += [["cat", 4096, None], ["exit", st["rc"]]]
                simproc.SCRIPTS[f"r{i}"] = script
            else:
                XSH.aliases[name] = _alias(i, st, received)
            words = [name, f"r{i}"]
            for j, r in enumerate(st["redirs"]):
                c = r["cls"]
                if c in ("out", "err", "all", "in"):
                    tgt = self._target(i, j, r)
                    path = os.path.join(ctx.work, tgt)
                    if r.get("tk") == "existing":
                        with open(path, "w") as f:
                            f.write("".join(f"s9:o:{k}\n" for k in range(5)) if c == "in" else "PRE\n")
                        pre[tgt] = "PRE\n" if c != "in" else None
                    words += [r["sp"], tgt]
                    probes["redirect_to_file"] += int(c != "in")
                    probes["append_mode"] += int(r["sp"].endswith(">>"))
                    probes["stdin_from_file"] += int(c == "in")
                else:
                    words.append(r["sp"])
                    probes["merge_e2o"] += int(c == "e2o")
                    probes["merge_o2e"] += int(c == "o2e")
                    probes["err_to_pipe"] += int(c == "e2p")
                    probes["all_to_pipe"] += int(c == "a2p")
                if st["kind"] in ("alias", "ualias"):
                    probes["alias_stage_redirected"] += 1
            parts.append(" ".join(words))
        line = " | ".join(parts)
        form = case["form"]
        src = {"bare": line, "![]": f"![{line}]", "$[]": f"$[{line}]", "$()": f"r = $({line})", "!()": f"r = !({line})"}[form] + "\n"
        verdict, model = self._model(case)
        probes["malformed_set"] = int(verdict == "error")
        V = []
        ctx.partial = {"summary": {"src": src.strip()}, "abort_sig": {"form": form, "verdict": verdict}}
        ops = "+".join(sorted({r["cls"] for st in stages for r in st["redirs"]})) or "none"

        lastst = stages[-1]
        last_classes = {r["cls"] for r in lastst["redirs"]}
        traits = {
            "last_o2e_stdout_capture": form == "$()" and "o2e" in last_classes,
            "last_unthreadable_object": form == "!()" and lastst["kind"] in ("ualias", "uproc"),
            "ualias_o2e": any(st["kind"] == "ualias" and any(r["cls"] == "o2e" for r in st["redirs"]) for st in stages),
            "alias_e2o_uncaptured": any(
                st["kind"] in ("alias", "ualias") and any(r["cls"] == "e2o" for r in st["redirs"]) and (i < len(stages) - 1 or form in ("bare", "![]", "$[]"))
                for i, st in enumerate(stages)
            ),
        }

        def viol(clause, msg, **sig):
            s = {"form": form, "ops": ops, "kinds": "+".join(st["kind"] for st in stages)}
            s.update({k_: v_ for k_, v_ in traits.items() if v_})
            s.update(sig)
            V.append({"clause": clause, "msg": msg, "sig": s})

        ctx.start()
        exc = None
        g = {}
        try:
            g = ctx.exec_src(src) or {}
            r = g.get("r")
            cap_out = cap_err = None
            if form == "$()":
                cap_out = r
            elif form == "!()" and r is not None:
                cap_out = r.out
                cap_err = r.err
        except BaseException as e:  # noqa: B902
            if isinstance(e, procworld._k.SimExit):
                raise
            exc = (type(e).__name__, str(e)[:300], traceback.format_exc()[-900:])
            cap_out = cap_err = None
        ctx.quiesce(10.0)
        ctx.k.stop()
        tty_o, tty_e = ctx.read_tty()
        started = [a[1][0].rsplit("/", 1)[-1] for a in simproc.STARTED] + [f"alias{i}" for i in received]
        # a redirect operator is consumed completely: no piece of its spelling may reach the stage as an argument
        # (every stage is written as `<name> r<i>` plus redirects)
        for a in simproc.STARTED:
            if len(a[1]) != 2 or not REC_ARG.fullmatch(a[1][1]):
                viol("argv.exact", f"{src.strip()}: stage {a[1][0].rsplit('/', 1)[-1]} was started with arguments {a[1][1:]} (written with one argument; the rest of the line are redirects)", extra=len(a[1]) > 2)
                break
        for i_, args_ in received.items():
            if len(args_) != 1 or not REC_ARG.fullmatch(args_[0]):
                viol("argv.exact", f"{src.strip()}: alias stage {i_} received arguments {args_} (written with one argument; the rest of the line are redirects)", extra=len(args_) > 1)
                break
        if verdict == "error":
            errored = exc is not None or b"xonsh:" in tty_e or b"Error" in tty_e
            if not errored:
                viol("malformed.error", f"{src.strip()}: conflicting/malformed redirects ({model}) were accepted silently; stages started: {started}", reason=model)
            elif any(REC.match(ln) for ln in tty_o.decode("utf-8", "replace").splitlines()) and False:
                pass
        elif exc is not None:
            viol("no.exception", f"{src.strip()} raised {exc[0]}: {exc[1]}\n{exc[2]}", exc=exc[0])
        else:
            observed = {
                "tty_out": tty_o.decode("utf-8", "replace"),
                "tty_err": tty_e.decode("utf-8", "replace"),
                "capture": cap_out if isinstance(cap_out, str) else "",
                "capture_err": cap_err if isinstance(cap_err, str) else "",
            }
            keys = set(model) | {"tty_out", "tty_err", "capture", "capture_err"}
            for key in sorted(keys, key=str):
                streams = model.get(key, [])
                if isinstance(key, tuple):
                    _, tgt, mode, tk = key
                    path = os.path.join(ctx.work, tgt)
                    try:
                        with open(path, encoding="utf-8", errors="replace") as f:
                            text = f.read()
                    except OSError:
                        text = None
                    if text is None:
                        viol("sink.complete", f"{src.strip()}: target file {tgt} was not created", sink="file", spelling=_spelling(stages, tgt))
                        continue
                    had_pre = tk == "existing"
                    if had_pre and mode == "w" and text.startswith("PRE\n"):
                        viol("file.mode", f"{src.strip()}: {tgt} was opened with a truncating operator but kept its previous content", spelling=_spelling(stages, tgt))
                    if had_pre and mode == "a" and not text.startswith("PRE\n"):
                        viol("file.mode", f"{src.strip()}: {tgt} was opened with an appending operator but lost its previous content", spelling=_spelling(stages, tgt))
                    sink_name = f"file {tgt}"
                    sigx = {"sink": "file", "spelling": _spelling(stages, tgt)}
                else:
                    text = observed[key]
                    sink_name = key
                    sigx = {"sink": key}
                got = [ln for ln in text.splitlines() if REC.match(ln)]
                want = [r_ for _, recs in streams for r_ in recs]
                if sorted(got) != sorted(want):
                    missing = sorted(set(want) - set(got))[:6]
                    extra = sorted(set(got) - set(want))[:6]
                    dup = len(got) != len(set(got))
                    clause = "sink.complete" if missing and not extra else "sink.only" if extra and not missing else "sink.complete"
                    viol(clause, f"{src.strip()}: sink {sink_name} holds {len(got)} records, expected {len(want)}; missing {missing} unexpected {extra} duplicates={dup}", missing=bool(missing), extra=bool(extra), **sigx)
                    continue
                for sid, recs in streams:
                    pos = [got.index(r_) for r_ in recs]
                    if pos != sorted(pos):
                        viol("stream.order", f"{src.strip()}: records of stream {sid} arrive out of order in sink {sink_name}", **sigx)
                        break
            # files that no redirect names must not appear
            for fn in os.listdir(ctx.work):
                if fn.startswith("t") and fn.endswith(".txt") and not any(isinstance(k_, tuple) and k_[1] == fn for k_ in model) and fn not in pre and not _is_stdin_target(stages, fn):
                    viol("sink.only", f"{src.strip()}: unexpected file {fn} was created")
        res = ctx.base_result()
        res["violations"] = V[:5]
        res["probes"].update(probes)
        res["faults"] = {"malformed_redirect_set": probes["malformed_set"], "unwritable_target": sum(1 for st in stages for r in st["redirs"] if r.get("tk") == "nodir"), "missing_stdin_file": sum(1 for st in stages for r in st["redirs"] if r.get("tk") == "missing")}
        nred = sum(len(st["redirs"]) for st in stages)
        res["nontrivial"] = nred >= 1 and sum(1 for st in stages for f in ("no", "ne") if st[f]) >= 2
        shape = (form, tuple((st["kind"], tuple((r["cls"], r["sp"], r.get("tk")) for r in st["redirs"])) for st in stages))
        res["states"] = [hashlib.sha1(repr(shape).encode()).hexdigest()[:12]]
        res["key"] = hashlib.sha1((repr(shape) + res["digest"]).encode()).hexdigest()[:16]
        res["summary"] = {"src": src.strip(), "verdict": verdict, "exc": exc and exc[:2]}
        if V:
            res["tty_err_tail"] = tty_e[-900:].decode("utf-8", "replace")
        return res


def _spelling(stages, tgt):
    for i, st in enumerate(stages):
        for j, r in enumerate(st["redirs"]):
            if C07._target(i, j, r) == tgt:
                return f"{st['kind']}:{r['sp']}"
    return None


def _is_stdin_target(stages, fn):
    for i, st in enumerate(stages):
        for j, r in enumerate(st["redirs"]):
            if r["cls"] == "in" and C07._target(i, j, r) == fn:
                return True
    return False


def _alias(i, st, received):
    def fn(args, stdin=None, stdout=None, stderr=None):
        received[i] = list(args)
        for k in range(max(st["no"], st["ne"])):
            if k < st["no"]:
                stdout.write(f"s{i}:o:{k}\n")
            if k < st["ne"]:
                stderr.write(f"s{i}:e:{k}\n")
        if stdin is not None and i > 0 or (stdin is not None and any(r["cls"] == "in" for r in st["redirs"])):
            for line in stdin:
                stdout.write(line)
        return st["rc"]

    if st["kind"] == "ualias":
        fn.__xonsh_threadable__ = False
    return fn


ENGINE = C07()
