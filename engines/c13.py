"""C13 - a crash or I/O failure while saving history never damages what was already saved.

For one operation instance (drawn from the seed) the file-system call sites of the real
xonsh code are ENUMERATED COMPLETELY: a dry run numbers them, then every site is used once
as a crash point (writes torn at 4 offsets) and once per errno / as a short write as a
failing call.  Each variant runs in a forked grandchild against a freshly restored data
directory; the survivor state is the real directory tree.
"""

import copy
import hashlib
import json
import os
import shutil
import sqlite3
import sys
import traceback

from simkit import faultfs, procworld
from simkit.engine import Engine

JSON_OPS = ("flush_bg", "flush_exit", "delete", "erasedups", "gc_unlock", "gc_run", "flush_new")
SQL_OPS = ("sql_append", "sql_delete", "sql_erasedups", "sql_gc", "sql_clear")
TEARS = ("0", "1", "half", "m1")


class _Clock:
    def __init__(self, t):
        self.t = t

    def time(self):
        return self.t

    def sleep(self, d):
        return None

    def __getattr__(self, n):
        import time

        return getattr(time, n)


class _Uptime:
    def __init__(self, boot):
        self.boot = boot

    def boottime(self):
        return self.boot


def make_cmds(f):
    cmds = []
    for i in range(f["ncmds"]):
        txt = f"cmd{f['sid']}_{i} " + "p" * f.get("pad", 10) + (" é" if i % 3 == 0 else "")
        if f.get("dupmod"):
            txt = f"dup{i % f['dupmod']} " + "p" * f.get("pad", 10)
        cmds.append({"inp": txt + "\n", "rtn": i % 2, "ts": [f["ts0"] + i, f["ts0"] + i + 0.5]})
    return cmds


class C13(Engine):
    property_id = "C13"
    level = "fault_enumeration"
    uses_kernel = False
    budgets = {
        "quick": {"runs": 160, "wall": 80, "min_runs": 40, "min_wall": 30},
        "thorough": {"runs": 6000, "wall": 1500, "min_runs": 120, "min_wall": 90},
    }
    rule = (
        "instance = operation (flusher dump bg/at-exit/new file, delete, erasedups, GC unlock rewrite, GC removal; sqlite append/delete/erasedups/gc/clear) "
        "x data directory (1-4 session files: command counts, sizes giving 1-5 raw writes, lock flags, ages, optional corrupt member). For the instance "
        "EVERY mutating file-system call site recorded by a dry run is used as crash point (writes additionally torn at offsets 0,1,half,len-1) and as "
        "failing call (2-3 errnos, short write). non-trivial = the fault fired; distinct = distinct (operation, site kind, variant, file role, #site) tuples"
    )
    state_measure = "distinct (operation, site index, site kind, fault variant) tuples"
    assumptions = [
        "process kill, not power loss: the page cache survives, fsync is not demanded",
        "sqlite: crash/fail sites are the Python-level connect/execute/commit calls (SQLite's own file I/O is not intercepted)",
        "a crash is os._exit in a forked process at a numbered call site; no finally/__exit__ runs, Python buffers are lost",
    ]
    components = {
        "real": ["history.json (flusher dump, delete, erasedups, GC files()/run())", "lib.lazyjson", "history.sqlite", "CPython io stack", "sqlite3", "real files, rename, unlink"],
        "stub": ["crash/fault injection at numbered call sites", "clock", "boot time", "mkstemp names"],
    }
    expected_probes = ["crash_between_write_and_replace", "torn_write", "failing_replace", "short_write", "crash_during_multi_file_op"]

    def extra_coverage(self, agg):
        return {
            "fault_site_runs": int(agg["stats"].get("fault_site_runs", 0)),
            "call_sites_enumerated": int(agg["stats"].get("sites", 0)),
            "exhaustive_within_instance": True,
            "note": "evaluations counts operation instances; fault_site_runs counts the forked crash/fail variants (every site of every instance)",
        }

    def warmup(self):
        procworld.warm(extra_traced=())
        import xonsh.history.json as hj
        import xonsh.history.sqlite as hs

        faultfs.install(hj)
        import xonsh.lib.lazyjson as xlj

        faultfs.install(xlj)  # LazyJSON opens the history files itself: those reads are call sites too
        self.hj, self.hs = hj, hs

    # ------------------------------------------------------------------ generation
    def gen_case(self, rng, tier, seed):
        backend = "json" if rng.random() < 0.8 else "sqlite"
        op = rng.choice(JSON_OPS if backend == "json" else SQL_OPS)
        nfiles = rng.randint(1, 4)
        files = []
        for i in range(nfiles):
            files.append(
                {
                    "sid": f"s{i}",
                    "ncmds": rng.choice((0, 1, 3, 8, 40, 120)),
                    "pad": rng.choice((5, 40, 200, 700)),
                    "locked": i == 0 or rng.random() < 0.35,
                    "ts0": 1000.0 + 500 * i + rng.choice((0, 0, 7)),
                    "closed": rng.random() < 0.8,
                    "corrupt": rng.choice((None,) * 8 + ("trunc", "empty")) if i > 0 else None,
                    "dupmod": rng.choice((None, None, 2, 5)) if op in ("erasedups", "sql_erasedups") else None,
                }
            )
        if op in ("erasedups", "sql_erasedups") and all(f["dupmod"] is None for f in files):
            files[0]["dupmod"] = 3
            files[0]["ncmds"] = max(files[0]["ncmds"], 8)
        return {
            "seed": seed,
            "backend": backend,
            "op": op,
            "files": files,
            # (every appended command is one more transaction of the same shape: 8 of them show every site kind; 30 made
            #  one sqlite instance ~400 forked variants, close to the per-run watchdog on a loaded machine)
            "nappend": rng.choice((1, 2, 5, 30)) if backend == "json" else rng.choice((1, 2, 5, 8)),
            "append_pad": rng.choice((5, 300, 3000)),
            "pattern": rng.choice(("cmds0_1", "cmds[01]_.*", "cmd.*", "dup1", "nomatch")),
            "boot": rng.choice((900.0, 1200.0, 1700.0, 5000.0)),
            "gc_size": rng.choice(("0 commands", "5 commands", "1 files", "2 files", "10 s", "3000 b", "100000 commands")),
            "errnos": rng.sample(list(faultfs.ERRNOS), 2),
            "now": 9000.0,
        }

    def simplify(self, case):
        for i in range(1, len(case["files"])):
            c = copy.deepcopy(case)
            del c["files"][i]
            yield c
        for i, f in enumerate(case["files"]):
            if f["ncmds"] > 3:
                c = copy.deepcopy(case)
                c["files"][i]["ncmds"] = 3
                yield c
            if f["pad"] > 5:
                c = copy.deepcopy(case)
                c["files"][i]["pad"] = 5
                yield c
        if case["nappend"] > 1:
            c = copy.deepcopy(case)
            c["nappend"] = 1
            yield c

    # ------------------------------------------------------------------ world
    def _build(self, case, root):
        import xonsh.lib.lazyjson as xlj

        d = os.path.join(root, "history_json")
        shutil.rmtree(root, ignore_errors=True)
        os.makedirs(d)
        if case["backend"] == "json":
            for f in case["files"]:
                path = os.path.join(d, f"xonsh-{f['sid']}.json")
                doc = {"cmds": make_cmds(f), "sessionid": f["sid"], "ts": [f["ts0"], (f["ts0"] + 400.0) if f["closed"] else None], "locked": bool(f["locked"])}
                with open(path, "w", newline="\n", encoding="utf-8") as fp:
                    xlj.ljdump(doc, fp, sort_keys=True)
                if f["corrupt"] == "trunc":
                    sz = os.path.getsize(path)
                    with open(path, "r+b") as fp:
                        fp.truncate(sz // 2)
                elif f["corrupt"] == "empty":
                    open(path, "w").close()
                os.utime(path, (f["ts0"] + 400, f["ts0"] + 400))
        else:
            path = os.path.join(root, "hist.sqlite")
            conn = sqlite3.connect(path)
            conn.execute("PRAGMA journal_mode=WAL;")
            conn.execute("CREATE TABLE IF NOT EXISTS xonsh_history (inp TEXT, rtn INTEGER, tsb REAL, tse REAL, sessionid TEXT, out TEXT, info TEXT, frequency INTEGER default 1, cwd TEXT)")
            for f in case["files"]:
                for c in make_cmds(f):
                    conn.execute("INSERT INTO xonsh_history (inp, rtn, tsb, tse, sessionid) VALUES (?,?,?,?,?)", (c["inp"].rstrip(), c["rtn"], c["ts"][0], c["ts"][1], f["sid"]))
            conn.commit()
            conn.close()

    def _snapshot(self, root):
        snap = {}
        for dp, _, fns in os.walk(root):
            for fn in fns:
                p = os.path.join(dp, fn)
                with open(p, "rb") as fp:
                    snap[os.path.relpath(p, root)] = fp.read()
        return snap

    def _restore(self, root, snap):
        shutil.rmtree(root, ignore_errors=True)
        for rel, data in snap.items():
            p = os.path.join(root, rel)
            os.makedirs(os.path.dirname(p), exist_ok=True)
            with open(p, "wb") as fp:
                fp.write(data)

    # ------------------------------------------------------------------ the operation under test (runs in a grandchild)
    def _operate(self, case, root):
        hj, hs = self.hj, self.hs
        XSH = procworld._WARM["XSH"]
        env = XSH.env
        env["XONSH_DATA_DIR"] = root
        env["HISTCONTROL"] = set()
        env["XONSH_STORE_STDOUT"] = False
        hj.time = _Clock(case["now"])
        hj.uptime = _Uptime(case["boot"])
        op = case["op"]
        d = os.path.join(root, "history_json")
        new_cmds = [{"inp": f"new {i} " + "n" * case["append_pad"] + "\n", "rtn": 0, "ts": [8000.0 + i, 8000.5 + i]} for i in range(case["nappend"])]
        if case["backend"] == "json":
            cur = os.path.join(d, "xonsh-s0.json")
            if op == "flush_new":
                cur = os.path.join(d, "xonsh-fresh.json")
            h = hj.JsonHistory(filename=cur, sessionid="s0" if op != "flush_new" else "fresh", buffersize=1000, gc=False)
            XSH.history = h
            if op in ("flush_bg", "flush_exit", "flush_new"):
                for c in new_cmds:
                    h.append(c)
                hf = h.flush(at_exit=(op == "flush_exit"))
                if hf is not None and op != "flush_exit":
                    hf.join()
            elif op == "delete":
                h.delete(case["pattern"])
            elif op == "erasedups":
                h.erasedups()
            elif op == "gc_unlock":
                gc = hj.JsonHistoryGC.__new__(hj.JsonHistoryGC)
                gc.files(only_unlocked=True)
            elif op == "gc_run":
                h.run_gc(size=case["gc_size"], blocking=True, force=True)
                if h.gc is not None:
                    h.gc.join()
        else:
            path = os.path.join(root, "hist.sqlite")
            h = hs.SqliteHistory(gc=False, filename=path, sessionid="s0")
            XSH.history = h
            if op == "sql_append":
                for c in new_cmds:
                    h.append(c)
            elif op == "sql_delete":
                h.delete(case["pattern"].replace("cmds", "cmds"))
            elif op == "sql_erasedups":
                h.erasedups()
            elif op == "sql_gc":
                hs.xh_sqlite_delete_items(int(case["gc_size"].split()[0]) if case["gc_size"].endswith("commands") else 5, filename=path)
            elif op == "sql_clear":
                h.clear()

    def _fork_op(self, case, root, plan):
        """Run the operation in a grandchild under the given fault plan.  Returns (status, log)."""
        r, w = os.pipe()
        sys.stdout.flush()
        sys.stderr.flush()
        pid = os.fork()
        if pid == 0:
            try:
                os.close(r)
                faultfs.PLAN = plan
                _sql_install(plan if case["backend"] == "sqlite" else None)
                err = None
                try:
                    self._operate(case, root)
                except BaseException as e:  # noqa: B902 - the operation may legitimately fail under faults
                    err = f"{type(e).__name__}: {e}"
                os.write(w, json.dumps({"log": plan.log, "fired": plan.fired, "err": err}).encode())
            finally:
                os._exit(0)
        os.close(w)
        chunks = []
        while True:
            b = os.read(r, 1 << 16)
            if not b:
                break
            chunks.append(b)
        os.close(r)
        _, st = os.waitpid(pid, 0)
        info = json.loads(b"".join(chunks)) if chunks else {"log": None, "fired": True, "err": None}
        return st, info

    # ------------------------------------------------------------------ run
    def cleanup_run(self, pid):
        shutil.rmtree(f"/dev/shm/xvsim-tmp/{int(pid):07d}", ignore_errors=True)
        super().cleanup_run(pid)

    def run_case(self, case, tape, emit):
        if os.path.isdir("/dev/shm") and os.access("/dev/shm", os.W_OK):
            # temporary files created without naming a directory land on another file system than the history
            faultfs.FS_TMP.other_fs_dir = f"/dev/shm/xvsim-tmp/{os.getpid():07d}"
        root = os.path.join(procworld.scratch_for(os.getpid()), "data")
        os.makedirs(root, exist_ok=True)
        fd2 = os.open(os.path.join(procworld.scratch_for(os.getpid()), "stderr"), os.O_WRONLY | os.O_CREAT | os.O_APPEND, 0o600)
        os.dup2(fd2, 2)
        os.dup2(fd2, 1)
        self._build(case, root)
        old = self._snapshot(root)
        V = []
        probes = {k: 0 for k in self.expected_probes}
        faults = {}
        states = set()
        # dry run: number the sites, learn the complete new version of every file
        vdir = os.path.join(procworld.scratch_for(os.getpid()), "versions")
        os.makedirs(vdir, exist_ok=True)
        dry = faultfs.Plan()
        dry.versions_dir = vdir
        st, info = self._fork_op(case, root, dry)
        versions = {}
        for fn in sorted(os.listdir(vdir)):
            with open(os.path.join(vdir, fn), "rb") as fp:
                versions.setdefault(fn[4:], set()).add(fp.read())
        if info["log"] is None:
            return {"harness_error": f"dry run died (status {st})"}
        sites = info["log"]
        new = self._snapshot(root)
        self._rows_new = self._sql_rows(root) if case["backend"] == "sqlite" else None
        self._restore(root, old)
        self._rows_old = self._sql_rows(root) if case["backend"] == "sqlite" else None
        op = case["op"]
        hist_files = [rel for rel in old if self._is_history_file(rel)]
        nvar = 0
        digest = hashlib.blake2b(digest_size=8)
        digest.update(json.dumps(sites).encode())

        def judge(label, sig):
            cur = self._snapshot(root)
            for rel in hist_files:
                c = cur.get(rel)
                if c == old[rel] or c == new.get(rel) or c in versions.get(os.path.basename(rel), ()):
                    continue  # previous, final, or a complete intermediate version delivered by an atomic replace
                if rel.endswith((".sqlite-wal", ".sqlite-shm")):
                    continue
                if rel.endswith(".sqlite"):
                    continue  # judged through SQL below
                if c is None and op == "gc_run" and self._gc_candidate(case, rel):
                    # WHICH unlocked files the collector discards is C14's subject (and a file it could not read just now
                    # does not count for it): a whole candidate file gone is its complete new version; a damaged one never is
                    probes["gc_selection_changed_by_fault"] = probes.get("gc_selection_changed_by_fault", 0) + 1
                    continue
                role = "current" if "xonsh-s0.json" in rel else "other"
                was_ok = self._loadable_bytes(old[rel])
                V.append(
                    {
                        "clause": "file.old_or_new",
                        "msg": f"{op}: after {label} history file {rel} ({len(old[rel])} bytes before, complete new version {len(new[rel]) if new.get(rel) is not None else 'removed'}) "
                        f"is {'missing' if c is None else str(len(c)) + ' bytes'}: neither its previous nor its new version; loadable now: {self._loadable_bytes(c) if c is not None else False}; sites={sites}",
                        "sig": dict(sig, role=role, was_loadable=was_ok, now_missing=c is None),
                    }
                )
            # leftovers must not be picked up as history files, and a fresh session must load everything
            try:
                self._reload_check(case, root, cur, sig, V, label)
            except Exception:  # noqa: BLE001
                V.append({"clause": "reload.ok", "msg": f"{op}: after {label} reloading the history raised\n{traceback.format_exc()[-900:]}", "sig": sig})
            digest.update(label.encode())

        for k, (what, dlen, fname) in enumerate(sites):
            if what == "open-r" or what.startswith("sql-r"):
                crash_vars = []
            elif what == "write":
                crash_vars = list(TEARS)
            else:
                crash_vars = [None]
            for tear in crash_vars:
                self._restore(root, old)
                st, inf = self._fork_op(case, root, faultfs.Plan("crash", k, tear))
                nvar += 1
                faults[f"crash@{what}"] = faults.get(f"crash@{what}", 0) + 1
                if tear in ("1", "half", "m1"):
                    probes["torn_write"] += 1
                if what == "replace":
                    probes["crash_between_write_and_replace"] += 1
                if sum(1 for s in sites if s[0] in ("replace", "remove", "open-w")) > 1:
                    probes["crash_during_multi_file_op"] += 1
                states.add((op, k, what, f"crash:{tear}"))
                judge(f"a crash at site {k} ({what}{'' if tear is None else ', torn at ' + tear}{'' if not fname else ', ' + fname})", {"op": op, "fault": "crash", "site": what, "tear": tear})
            fail_vars = [("fail", e) for e in case["errnos"]]
            if what == "write":
                fail_vars.append(("short", None))
            for mode, err in fail_vars:
                self._restore(root, old)
                st, inf = self._fork_op(case, root, faultfs.Plan(mode, k, None, err))
                nvar += 1
                key = f"{mode}@{what}" + (f":{os.strerror(err)[:12]}" if err else "")
                faults[key] = faults.get(key, 0) + 1
                if what == "replace":
                    probes["failing_replace"] += 1
                if mode == "short":
                    probes["short_write"] += 1
                states.add((op, k, what, f"{mode}:{err}"))
                judge(f"{'a short write' if mode == 'short' else 'OSError(' + str(err) + ')'} at site {k} ({what}{'' if not fname else ', ' + fname})", {"op": op, "fault": mode, "site": what, "errno": err})
        res = {
            "violations": _dedupe(V)[:6],
            "digest": digest.hexdigest(),
            "tape": None,
            "stats": {"fault_site_runs": nvar, "sites": len(sites)},
            "faults": faults,
            "probes": probes,
            "nontrivial": nvar > 0,
            "states": [hashlib.sha1(repr(s).encode()).hexdigest()[:12] for s in states],
            "key": hashlib.sha1(repr((op, sites, [f["ncmds"] for f in case["files"]])).encode()).hexdigest()[:16],
            "summary": {"op": op, "sites": [s[0] for s in sites], "variants": nvar},
        }
        return res

    # ------------------------------------------------------------------ helpers
    @staticmethod
    def _gc_candidate(case, rel):
        base = os.path.basename(rel)
        for f in case["files"]:
            if base == f"xonsh-{f['sid']}.json":
                return (not f["locked"]) or f["ts0"] < case["boot"]
        return False

    @staticmethod
    def _is_history_file(rel):
        b = os.path.basename(rel)
        return (b.startswith("xonsh-") and b.endswith(".json")) or b.endswith(".sqlite")

    @staticmethod
    def _loadable_bytes(data):
        if data is None:
            return False
        try:
            doc = json.loads(data.decode("utf-8"))
            return isinstance(doc, dict) and "data" in doc and "cmds" in doc["data"]
        except Exception:  # noqa: BLE001
            return False

    def _reload_check(self, case, root, cur, sig, V, label):
        hj, hs = self.hj, self.hs
        XSH = procworld._WARM["XSH"]
        XSH.env["XONSH_DATA_DIR"] = root
        saved = faultfs.PLAN
        faultfs.PLAN = faultfs.Plan()
        try:
            if case["backend"] == "json":
                listed = hj._xhj_get_history_files()
                bad = [p for p in listed if not os.path.basename(p).endswith(".json") or ".tmp" in os.path.basename(p)]
                if bad:
                    V.append({"clause": "no.foreign_match", "msg": f"{case['op']}: after {label} leftover files are listed as history files: {bad}", "sig": sig})
                import xonsh.lib.lazyjson as xlj

                for p in listed:
                    rel = os.path.relpath(p, root)
                    was = self._loadable_bytes(self._old_for(rel)) if False else None
                    del was
                h = hj.JsonHistory(filename=os.path.join(root, "history_json", "xonsh-reader.json"), sessionid="reader", gc=False)
                list(h.all_items())
                os.unlink(h.filename)
                del xlj
            else:
                path = os.path.join(root, "hist.sqlite")
                conn = sqlite3.connect(path)
                try:
                    rows = conn.execute("SELECT inp, sessionid FROM xonsh_history ORDER BY tsb, rowid").fetchall()
                    ok = conn.execute("PRAGMA integrity_check").fetchone()[0]
                finally:
                    conn.close()
                if ok != "ok":
                    V.append({"clause": "file.loadable", "msg": f"{case['op']}: after {label} sqlite integrity_check says {ok}", "sig": sig})
                ro, rn = self._rows_old, self._rows_new
                if case["op"] == "sql_append":
                    # one transaction per appended command: any prefix of the appends is a legal state
                    # (a failed append may lose its own command, never an earlier one)
                    extra = rows[len(ro) :]
                    it = iter(rn[len(ro) :])
                    good = rows[: len(ro)] == ro and all(any(x == y for y in it) for x in extra)
                else:
                    good = rows == ro or rows == rn
                if not good:
                    V.append({"clause": "cmds.superset", "msg": f"{case['op']}: after {label} the table has {len(rows)} rows: neither the {len(ro)} committed before nor the {len(rn)} of the completed operation", "sig": sig})
        finally:
            faultfs.PLAN = saved

    def _old_for(self, rel):
        return None

    @staticmethod
    def _sql_rows(root):
        path = os.path.join(root, "hist.sqlite")
        conn = sqlite3.connect(path)
        try:
            return conn.execute("SELECT inp, sessionid FROM xonsh_history ORDER BY tsb, rowid").fetchall()
        finally:
            conn.close()


def _dedupe(V):
    seen = set()
    out = []
    for v in V:
        k = (v["clause"], json.dumps(v["sig"], sort_keys=True))
        if k not in seen:
            seen.add(k)
            out.append(v)
    return out


# ---------------------------------------------------------------------- sqlite call sites
_real_connect = sqlite3.connect


class _Cur:
    def __init__(self, cur, plan):
        self._c = cur
        self._p = plan

    def execute(self, sql, *a):
        kind = "sql-w" if sql.lstrip().split(None, 1)[0].upper() in ("INSERT", "DELETE", "UPDATE", "CREATE", "ALTER", "PRAGMA") else "sql-r"
        self._p.hit(kind + ":" + sql.lstrip().split(None, 1)[0].upper())
        return self._c.execute(sql, *a)

    def __getattr__(self, n):
        return getattr(self._c, n)

    def __iter__(self):
        return iter(self._c)


class _Conn:
    def __init__(self, conn, plan):
        self._c = conn
        self._p = plan

    def cursor(self):
        return _Cur(self._c.cursor(), self._p)

    def execute(self, sql, *a):
        return _Cur(self._c.cursor(), self._p).execute(sql, *a)

    def commit(self):
        self._p.hit("sql-commit")
        return self._c.commit()

    def close(self):
        return self._c.close()

    def __enter__(self):
        self._c.__enter__()
        return self

    def __exit__(self, *a):
        if a[0] is None:
            self._p.hit("sql-commit")
        return self._c.__exit__(*a)

    def __getattr__(self, n):
        return getattr(self._c, n)


def _sql_install(plan):
    import xonsh.history.sqlite as hs

    if plan is None:
        hs.sqlite3 = sqlite3
        return

    class _Mod:
        OperationalError = sqlite3.OperationalError

        def __getattr__(self, n):
            return getattr(sqlite3, n)

        @staticmethod
        def connect(*a, **kw):
            plan.hit("sql-connect")
            return _Conn(_real_connect(*a, **kw), plan)

    hs.sqlite3 = _Mod()


ENGINE = C13()
