"""C19 - cached bytecode never changes what a script does.

A history machine over the real `xonsh.codecache` entry points (`run_script_with_cache`,
`run_code_with_cache`) in a scratch `$XONSH_DATA_DIR`, as uid 65534.  A SIMULATED CLOCK
stamps the mtimes of the source and of every cache file right after xonsh wrote it
(granularity fine / 1 s / 2 s, zero-length steps, backward jumps).  Steps edit / touch /
restore-an-older-copy of the script, run it, run `-c` style code strings (near-duplicates,
both modes), flip the four cache switches, rebind names the code's parse depends on, and
damage cache entries: truncation (EVERY byte length for the .py script, header-complete +
sampled body lengths for .xsh), foreign xonsh / Python version lines, garbage and over-long
headers, empty file, directory in place of the file, unreadable file, unwritable cache
directory; FaultFS makes the cache read/write calls of a run fail (ENOSPC, EIO, EACCES,
EMFILE, EROFS, short write) or crashes the writer at a call site with a torn write (forked
grandchild, only the bytes on disk survive).  The oracle is the same source compiled and
run UNCACHED (same functions, switches off) in an identical fresh namespace.
"""

import copy
import hashlib
import io
import marshal
import os
import shutil
import sys
import traceback
import types

from simkit import faultfs, procworld
from simkit.engine import Engine

T0 = 1_700_000_000.0
BODIES = (
    'V = {v}\nprint("ver", V)\nacc = [i * V for i in range(3)]\n',
    "def f(x):\n    return x + {v}\nR = f(1)\nprint(f'R={{R}}')\n",
    "marker -l\nZ = {v}\nprint('z', Z)\n",
    'print("a{v}")\nraise ValueError("boom{v}")\n',
    "x = = {v}\n",
    '$C19_VAR = "{v}"\nprint($C19_VAR)\nW = len($C19_VAR)\n',
    "BIG = {v}\n" + "".join(f"n{i} = BIG + {i}  # padding padding padding padding padding padding padding\n" for i in range(160)) + "print(n159)\n",
    "import sys\nprint('argv-free', {v})\nQ = [marker, l] if False else {v}\n",
)
PY_BODIES = (
    'V = {v}\nprint("py", V)\nacc = [i * V for i in range(3)]\n',
    "def g(x):\n    return x * {v}\nR = g(2)\nprint(R)\n",
    'print("p{v}")\nraise KeyError("k{v}")\n',
    "x = = {v}\n",
)
CODES = (
    "1 + {v}",
    "print('c{v}')",
    "print('c{v}') ",
    "print( 'c{v}')",
    "x = {v}\nx",
    "marker -l",
    "y = {v}; y * 2",
    "raise RuntimeError('r{v}')",
)
CORRUPT = ("trunc", "trunc", "trunc_all", "trunc_all", "xonsh_ver", "py_ver", "garbage_header", "long_header", "empty", "directory", "unreadable", "dir_unwritable", "header_only", "bitflip", "bitflip", "garbage_tail")
SWITCHES = ("XONSH_CACHE_SCRIPTS", "XONSH_CACHE_EVERYTHING", "scriptcache", "cacheall")


# names of the script and of its sibling: spellings that differ only in case, '_' and '.' (what the cache-file naming has to escape)
SCRIPT_NAMES = ["s", "S", "_s", "__s", "s_", "_S", "s.", "s_.", "aB", "a_b", "a.b", "a_.b", "A_b", "_a_b", "a__b", "tool", "Tool"]


class _CachePlan(faultfs.Plan):
    """Fires at the k-th call that concerns the cache entry (read-open of it, write-open, write), whatever else the run opens."""

    def __init__(self, mode, k, tear, err, base):
        super().__init__(mode, None, tear, err)
        self.k, self.base, self.e = k, base, 0
        self.fired_what = None

    def hit(self, what, fd=None, data=None, path=None):
        if (what == "write") if self.mode == "short" else (what in ("open-w", "write") or (what == "open-r" and path and os.path.basename(path) == self.base)):
            if self.e == self.k:
                self.site = self.n
                self.fired_what = what
            self.e += 1
        return super().hit(what, fd, data, path)


class _Rec:
    """Stand-in for the subprocess entry points: records what compiled code asks to launch."""

    def __init__(self):
        self.calls = []

    def make(self, kind):
        def f(*cmds, **kw):
            self.calls.append((kind, repr(cmds)))
            return None

        return f


class C19(Engine):
    property_id = "C19"
    level = "exploration"
    uses_kernel = False
    budgets = {
        "quick": {"runs": 1400, "wall": 85, "min_runs": 150, "min_wall": 30},
        "thorough": {"runs": 40000, "wall": 1500, "min_runs": 400, "min_wall": 90},
    }
    rule = (
        "case = settings (4 cache switches, mtime granularity fine/1s/2s, initial bindings of the names the code's parse depends on) x history of 4-30 steps from edit(body, version) / touch / "
        "restore an older copy (older mtime) / clock step (0, ms, s, h, backwards) / run .xsh script / run .py script (directly or through a symlink to it) / run an unrelated, older sibling .xsh script next to the first (both names from a pool of spellings differing only in case, _ and .) / run code string (8 templates incl. near-duplicates, modes exec and single) / switch "
        "flips / rebind / entry damage (truncate at one length; truncate at EVERY byte length for .py entries and all header lengths + sampled body lengths for .xsh entries; foreign xonsh version; "
        "foreign Python version; garbage header; 2000-byte header; empty; header only; bit flips and garbage tails that marshal refuses; directory in place; unreadable; cache directory unwritable) / FaultFS failing call at a cache read-open / "
        "write-open / write site of the next run (5 errnos, short write) / writer crash at a site with torn write (forked grandchild). every run is compared with the same source run uncached. "
        "non-trivial = a run that found an entry on disk; distinct = distinct (settings, step kinds, damage kinds) histories"
    )
    state_measure = "distinct (run kind, entry state: none / valid hit / stale-newer-source / stale-unjudged / damaged kind / after crash / after failed write, switches, outcome) tuples"
    assumptions = [
        "the statement promises the new source once its modification time is NEWER than the entry's: runs where the content changed but the source mtime is not newer (same tick, backward clock step, an older copy restored) are counted (probe stale_precondition_unmet) and not judged",
        "observation = printed output, subprocess launches requested by the compiled code (recorded by stubs, nothing is spawned), exception type/message returned or raised, and the resulting namespace (reprs of non-dunder, non-function names); stderr warnings are not compared",
        "a crash of the in-place cache writer leaves what the write(2) calls issued before the crash put on disk (torn at 0 / 1 / half / len-1 bytes of the call in flight); out-of-order persistence of blocks is not modelled",
        "body damage (single bit flips in the first 72 body bytes, garbage tails) is used only when the stock marshal refuses to load it (decided in a forked child): such an entry is unreadable; damage that still unmarshals into a code object is not generated - the file format carries no checksum, such an entry is 'readable' - nor damage that crashes the interpreter",
        "whether an entry is rebuilt is only judged when caching is on and the cache location is writable",
    ]
    components = {
        "real": ["codecache.run_script_with_cache / run_code_with_cache / script_cache_check / code_cache_check / _check_cache_versions / update_cache / get_cache_filename / code_cache_name / compile_code / should_use_cache / run_compiled_code", "execer.Execer (real parser and compiler)", "tools.is_writable_file", "real files, marshal, kernel permission checks (uid 65534)"],
        "stub": ["clock: mtimes written with os.utime from the simulated clock", "FaultFS proxies for open/os in xonsh.codecache (failing calls, short writes, crash points)", "subprocess entry points of the session replaced by recorders"],
    }
    expected_probes = ["valid_hit", "first_run_no_entry", "newer_source_recompiled", "stale_precondition_unmet", "same_tick_edit", "clock_backwards", "older_copy_restored", "truncation_runs", "truncation_complete_enumerations", "foreign_version", "garbage_header", "directory_in_place", "unreadable_entry", "dir_unwritable", "failing_call_fired", "short_write_fired", "crash_fired", "rebuilt_after_damage", "switch_off_run", "code_near_duplicate", "code_mode_switch", "rebind_between_runs", "raising_script", "syntax_error_script", "body_damage_refused_by_marshal", "run_through_symlink", "sibling_script_run"]

    def warmup(self):
        procworld.warm(extra_traced=())
        import xonsh.codecache as cc

        self.cc = cc
        faultfs.install(cc)

    # ------------------------------------------------------------------ generation
    def _gen_op(self, rng):
        r = rng.random()
        if r < 0.035:
            return {"k": "sib"}
        if r < 0.22:
            return {"k": "run", "t": rng.choice(("xsh", "xsh", "py")), "via": rng.choice((None, None, "link"))}
        if r < 0.36:
            return {"k": "code", "i": rng.randrange(len(CODES)), "v": rng.choice((1, 1, 2)), "mode": rng.choice(("exec", "single", "single"))}
        if r < 0.48:
            return {"k": "edit", "t": rng.choice(("xsh", "xsh", "py")), "b": rng.randrange(8), "v": rng.randrange(1, 5)}
        if r < 0.52:
            return {"k": "touch", "t": rng.choice(("xsh", "py"))}
        if r < 0.55:
            return {"k": "restore_old", "t": rng.choice(("xsh", "py")), "b": rng.randrange(8), "v": rng.randrange(5, 9)}
        if r < 0.64:
            return {"k": "tick", "d": rng.choice((0.0, 0.0, 0.001, 0.5, 1.0, 2.5, 3600.0, -5.0, -4000.0))}
        if r < 0.70:
            return {"k": "switch", "name": rng.choice(SWITCHES), "val": rng.random() < 0.6}
        if r < 0.74:
            return {"k": "rebind", "bound": rng.random() < 0.5}
        if r < 0.88:
            return {"k": "damage", "what": rng.choice(CORRUPT), "target": rng.choice(("xsh", "py", "py", "code")), "frac": rng.random(), "i": rng.randrange(len(CODES)), "v": 1}
        if r < 0.95:
            return {"k": "fail_next", "sitefrac": rng.random(), "mode": rng.choice(("fail", "fail", "short")), "err": rng.choice(faultfs.ERRNOS), "target": rng.choice(("xsh", "py", "code")), "i": rng.randrange(len(CODES))}
        return {"k": "crash_next", "sitefrac": rng.random(), "tear": rng.choice(("0", "1", "half", "m1")), "target": rng.choice(("xsh", "py", "code")), "i": rng.randrange(len(CODES))}

    def gen_case(self, rng, tier, seed):
        n = rng.choice((4, 6, 9, 14, 20)) if tier == "quick" else rng.choice((6, 12, 20, 30))
        ops = [self._gen_op(rng) for _ in range(n)]
        ops.append({"k": "run", "t": "xsh"})
        if rng.random() < 0.5:
            ops.append({"k": "sib"})
        names = rng.sample(SCRIPT_NAMES, 2) if rng.random() < 0.7 else ["s", "sib"]
        return {
            "seed": seed,
            "settings": {
                "XONSH_CACHE_SCRIPTS": rng.random() < 0.9,
                "XONSH_CACHE_EVERYTHING": rng.random() < 0.6,
                "scriptcache": rng.random() < 0.9,
                "cacheall": rng.random() < 0.5,
                "gran": rng.choice((0.0, 0.0, 1.0, 2.0)),
                "autostep": rng.choice((0.0, 0.01, 0.3, 1.5)),
                "bound": rng.random() < 0.3,
                "full_trunc": tier != "quick",
            },
            "body0": [rng.randrange(8), rng.randrange(3)],
            "names": names,
            "ops": ops,
        }

    def simplify(self, case):
        for k, v in (("gran", 0.0), ("autostep", 0.01), ("bound", False), ("XONSH_CACHE_EVERYTHING", True), ("cacheall", False)):
            if case["settings"][k] != v:
                c = copy.deepcopy(case)
                c["settings"][k] = v
                yield c

    # ------------------------------------------------------------------ helpers
    def _now(self):
        t = self.clock
        if self.gran:
            t = (t // self.gran) * self.gran
        return t

    def _write_src(self, t, body, v, mtime=None):
        path = self.src[t]
        text = (PY_BODIES[body % len(PY_BODIES)] if t == "py" else BODIES[body]).format(v=v)
        with open(path, "w") as f:
            f.write(text)
        m = self._now() if mtime is None else mtime
        os.utime(path, (m, m))
        self.content[t] = (body, v, text)

    def _snap_code_dir(self):
        d = os.path.join(self.env["XONSH_DATA_DIR"], "xonsh_code_cache")
        out = {}
        for root, _dirs, files in os.walk(d):
            for f in files:
                p = os.path.join(root, f)
                out[p] = self._stat(p)
        return out

    @staticmethod
    def _stat(p):
        try:
            st = os.lstat(p)
        except OSError:
            return None
        return (st.st_ino, st.st_size, st.st_mtime_ns, st.st_mode)

    def _intact(self, cf):
        """Is cf a complete entry this xonsh would accept?"""
        try:
            with open(cf, "rb") as f:
                if f.readline(1024).strip() != self.cc.XONSH_VERSION.encode():
                    return False
                if f.readline(1024).strip() != bytes(self.cc.PYTHON_VERSION_INFO_BYTES):
                    return False
                return isinstance(marshal.load(f), types.CodeType)
        except Exception:  # noqa: BLE001
            return False

    @staticmethod
    def _marshal_verdict(body):
        """What does the stock marshal do with these bytes?  Decided in a forked child (damaged marshal data may crash CPython)."""
        pid = os.fork()
        if pid == 0:
            code = 0
            try:
                obj = marshal.loads(body)
                code = 0 if isinstance(obj, types.CodeType) else 4
            except BaseException:  # noqa: B902
                code = 3
            os._exit(code)
        _, status = os.waitpid(pid, 0)
        if os.WIFEXITED(status):
            return {0: "loads", 3: "raises", 4: "loads_other"}.get(os.WEXITSTATUS(status), "crash")
        return "crash"

    def _base_ns(self):
        ns = {"__name__": "__main__"}
        if self.bound:
            ns["marker"] = 10
            ns["l"] = 3
        return ns

    def _observe(self, fn):
        """Run fn(glb) with output and launches captured -> observation dict."""
        XSH = self.XSH
        rec = _Rec()
        names = ("subproc_uncaptured", "subproc_captured_stdout", "subproc_captured_inject", "subproc_captured_object", "subproc_captured_hiddenobject")
        saved = {n: getattr(XSH, n) for n in names}
        for n in names:
            setattr(XSH, n, rec.make(n))
        out = io.StringIO()
        so, se = sys.stdout, sys.stderr
        sys.stdout, sys.stderr = out, io.StringIO()
        glb = self._base_ns()
        self.env.pop("C19_VAR", None)
        raised = None
        ret = None
        try:
            ret = fn(glb)
        except BaseException as e:  # noqa: B902
            raised = f"{type(e).__name__}: {str(e)}"
        finally:
            sys.stdout, sys.stderr = so, se
            for n in names:
                setattr(XSH, n, saved[n])
        exc = None
        if ret is not None and ret[0] is not None:
            exc = f"{ret[0].__name__}: {str(ret[1])[:80]}"
        ns = {k: repr(v) for k, v in sorted(glb.items()) if not k.startswith("__") and not callable(v) and k != "_"}
        if raised:
            raised = raised.replace(self.top, "@")[:120]
        return {"out": out.getvalue().replace(self.top, "@"), "launch": rec.calls, "exc": exc, "raised": raised, "ns": ns, "envvar": self.env.get("C19_VAR", None)}

    def _switches(self, on=None):
        ex = self.XSH.execer
        st = self.switch
        if on is False:
            ex.scriptcache, ex.cacheall = False, False
            self.env["XONSH_CACHE_SCRIPTS"] = False
            self.env["XONSH_CACHE_EVERYTHING"] = False
        else:
            ex.scriptcache, ex.cacheall = st["scriptcache"], st["cacheall"]
            self.env["XONSH_CACHE_SCRIPTS"] = st["XONSH_CACHE_SCRIPTS"]
            self.env["XONSH_CACHE_EVERYTHING"] = st["XONSH_CACHE_EVERYTHING"]

    def _cache_on(self, mode):
        st = self.switch
        if mode == "exec":
            return bool((st["scriptcache"] or st["cacheall"]) and (st["XONSH_CACHE_SCRIPTS"] or st["XONSH_CACHE_EVERYTHING"]))
        return bool(st["cacheall"] or st["XONSH_CACHE_EVERYTHING"])

    def _viol(self, clause, msg, **sig):
        self.V.append({"clause": clause, "msg": f"step {self.step}: {msg}", "sig": sig})

    # ------------------------------------------------------------------ one judged run
    def _target(self, kind, i=0, v=1, mode="exec", strict=False):
        """-> (key, cache file, runner(glb), reference runner(glb), mode, source description)"""
        cc = self.cc
        ex = self.XSH.execer
        if kind in ("xsh", "py"):
            # (the same script may be addressed through a symlink, e.g. ~/bin/tool -> ~/src/tool.xsh: one entry, keyed by the real path)
            path = self.link[kind] if self.via == "link" else self.src[kind]
            cf = cc.get_cache_filename(self.src[kind], code=False)
            return kind, cf, (lambda glb: cc.run_script_with_cache(path, ex, glb=glb, loc=None, mode="exec")), "exec"
        code = CODES[i].format(v=v)
        # which file holds the entry of (code, mode) is learnt from what the real code writes (see _run)
        cf = self.cfmap.get((code, mode))
        if cf is None and not strict:
            cf = self.cfmap.get((code, "single" if mode == "exec" else "exec"))  # (entries may be shared between modes)
        return ("code", code), cf, (lambda glb: cc.run_code_with_cache(code, "<string>", ex, glb=glb, loc=None, mode=mode)), mode

    def _sibling_run(self):
        """A second, unrelated script next to the first one.  Both names come from a pool of spellings that differ only in letter case,
        '_' and '.' (the characters the cache-file naming escapes).  The sibling is older than every entry and never edited, runs through
        the same cache and must behave exactly as uncached: two scripts never answer for each other."""
        cc, ex, path = self.cc, self.XSH.execer, self.sib
        if not os.path.lexists(path):
            with open(path, "w") as f:
                f.write('SIB = 77\nprint("sibling script", SIB)\n')
            os.utime(path, (T0 - 5000.0, T0 - 5000.0))

        def runner(glb):
            return cc.run_script_with_cache(path, ex, glb=glb, loc=None, mode="exec")

        cf = cc.get_cache_filename(path, code=False)
        pre = self._stat(cf)
        self._switches()
        obs = self._observe(runner)
        post = self._stat(cf)
        if post is not None and post != pre:
            try:
                m = self._now()
                os.utime(cf, (m, m))
            except OSError:
                pass
        self._switches(on=False)
        ref = self._observe(runner)
        self._switches()
        self.nruns += 1
        self.probes["sibling_script_run"] += 1
        self.states.add(("sib", pre is not None, self._cache_on("exec"), obs == ref))
        self.trace.append(("sibling run", pre is not None, hashlib.sha1(repr(sorted(obs.items())).encode()).hexdigest()[:8]))
        if obs != ref:
            diff = [k for k in obs if obs[k] != ref[k]]
            self._viol(
                "same.as_uncached",
                f"sibling script {os.path.basename(path)!r} (next to {os.path.basename(self.src['xsh'])!r}, older than every entry, never edited) differs from its uncached run in {diff}: "
                f"cached={ {k: obs[k] for k in diff} } uncached={ {k: ref[k] for k in diff} }",
                kind="sib",
                state="sibling",
                damage=None,
                fault=None,
                raised=bool(obs["raised"]),
            )

    def _run(self, kind, i=0, v=1, mode="exec", plan=None, label=None):
        key, cf, runner, mode = self._target(kind, i, v, mode)
        ent = self.entries.get(cf)
        pre = self._stat(cf) if cf else None
        snap0 = self._snap_code_dir() if kind == "code" else None
        on = self._cache_on(mode)
        src_m = os.stat(self.src[kind]).st_mtime if kind in ("xsh", "py") else None
        cur = self.content[kind][:2] if kind in ("xsh", "py") else key[1]
        # ---- classify the state the run starts from
        state = "none"
        if pre is not None and ent is not None:
            if ent.get("damage"):
                state = "damaged:" + ent["damage"]
            elif kind in ("xsh", "py") and ent["version"] != cur:
                state = "stale_newer_source" if src_m > ent["mtime"] else "stale_unjudged"
            else:
                state = "valid"
        elif pre is not None:
            state = "damaged:unknown"
        self._switches()
        faultfs.PLAN = plan or faultfs.Plan()
        obs = self._observe(runner)
        fired = faultfs.PLAN.fired
        log = faultfs.PLAN.log
        faultfs.PLAN = faultfs.Plan()
        self.last_log[kind if kind != "code" else "code"] = log
        if kind == "code":
            snap1 = self._snap_code_dir()
            changed = [f for f in snap1 if snap1[f] != snap0.get(f)]
            if len(changed) == 1:
                if cf != changed[0]:
                    cf, pre = changed[0], snap0.get(changed[0])
                self.cfmap[(key[1], mode)] = cf
            elif len(changed) > 1:
                self._viol("code.no_sharing", f"one run of {key!r} wrote {len(changed)} cache files: {changed}", kind="code")
        post = self._stat(cf) if cf else None
        written = post is not None and post != pre
        if written:
            try:
                m = self._now()
                os.utime(cf, (m, m))
            except OSError:
                pass
        # ---- the reference: same source, uncached
        self._switches(on=False)
        ref = self._observe(runner)
        self._switches()
        self.nruns += 1
        if pre is not None:
            self.nontrivial = True
        sig = {"kind": kind if kind != "code" else "code", "state": state.split(":")[0], "damage": state.split(":")[1] if ":" in state else None, "fault": (plan.mode if plan and fired else None)}
        self.states.add((sig["kind"], state, on, mode, bool(plan and fired), obs == ref))
        self.trace.append((label or "run", sig["kind"], state, on, mode, hashlib.sha1(repr(sorted(obs.items())).encode()).hexdigest()[:8]))
        p = self.probes
        if state == "valid" and on:
            p["valid_hit"] += 1
        if state == "none":
            p["first_run_no_entry"] += 1
        if state == "stale_newer_source":
            p["newer_source_recompiled"] += 1
        if not on:
            p["switch_off_run"] += 1
        if ref["exc"]:
            p["raising_script"] += 1
        if ref["raised"] and "SyntaxError" in ref["raised"]:
            p["syntax_error_script"] += 1
        if state == "stale_unjudged" and on:
            p["stale_precondition_unmet"] += 1
        # ---- judge
        if obs != ref:
            if state == "stale_unjudged" and on and not (obs["raised"] and not ref["raised"]):
                pass  # outside the statement's precondition (still: never fatal)
            else:
                diff = [k for k in obs if obs[k] != ref[k]]
                clause = "same.as_uncached"
                if state.startswith("damaged") or (plan and fired):
                    clause = "corrupt.ignored" if not (plan and fired) else "fault.not_fatal"
                if obs["raised"] and not ref["raised"]:
                    clause = "never.fatal" if not state.startswith("damaged") and not (plan and fired) else clause
                dim = None
                if state == "valid" and ent is not None:
                    if ent.get("ctx") != self.bound:
                        dim = "rebind"
                    elif ent.get("mode") != mode:
                        dim = "mode"
                if dim == "rebind" and not obs["raised"]:
                    clause = "same.as_uncached"  # the entry was used, the fault (if any) changed nothing about that
                self._viol(
                    clause,
                    f"{label or 'run'} {key!r} (cache {'on' if on else 'off'}, mode {mode}, entry state {state}{', injected ' + plan.mode + ' at ' + str(plan.fired_what) + ' errno ' + str(plan.err) if plan and fired else ''}) differs from the uncached run in {diff}: "
                    f"cached={ {k: obs[k] for k in diff} } uncached={ {k: ref[k] for k in diff} }",
                    **sig,
                    dim=dim,
                    raised=bool(obs["raised"]),
                )
        # ---- switch.off: nothing may be written when the switches say no
        if not on and written:
            self._viol("switch.off", f"run of {key!r} with caching switched off (mode {mode}, switches {self.switch}) wrote {cf}", **sig)
        # ---- bookkeeping of what the entry now holds
        if cf is None:
            return obs, ref, fired, cf
        now_intact = self._intact(cf)
        if written and now_intact:
            self.entries[cf] = {"version": cur, "mtime": os.stat(cf).st_mtime, "ctx": self.bound, "mode": mode, "damage": None}
            if state.startswith("damaged"):
                p["rebuilt_after_damage"] += 1
        elif written:
            self.entries[cf] = {"version": cur, "mtime": None, "ctx": self.bound, "mode": mode, "damage": "partial_write"}
        writable = os.access(os.path.dirname(cf), os.W_OK) if os.path.isdir(os.path.dirname(cf)) else True
        if on and state.startswith("damaged") and not (plan and fired) and not ref["raised"] and writable and not os.path.isdir(cf) and not now_intact and state != "damaged:unreadable":
            self._viol("corrupt.rebuilt", f"after a run over a damaged entry ({state}) with caching on, {os.path.basename(cf)} is still not a complete entry", **sig)
        return obs, ref, fired, cf

    # ------------------------------------------------------------------ damage
    def _damage(self, op):
        kind = op["target"]
        key, cf, runner, mode = self._target(kind, op["i"], op["v"], "exec", strict=True)
        if cf is None or not os.path.isfile(cf) or not self._intact(cf):
            # make sure there is an entry (of THIS mode) to damage
            self._run(kind, op["i"], op["v"], "exec", label="prime")
            key, cf, runner, mode = self._target(kind, op["i"], op["v"], "exec", strict=True)
            if cf is None or not os.path.isfile(cf) or not self._intact(cf):
                return
        what = op["what"]
        data = open(cf, "rb").read()
        st = os.stat(cf)
        ent = self.entries.get(cf) or {"version": None, "mtime": st.st_mtime, "ctx": self.bound, "mode": "exec"}
        nl1 = data.index(b"\n")
        nl2 = data.index(b"\n", nl1 + 1)
        p = self.probes

        def put(blob, tag):
            if os.path.isdir(cf):
                shutil.rmtree(cf)
            with open(cf, "wb") as f:
                f.write(blob)
            os.utime(cf, (st.st_mtime, st.st_mtime))
            self.entries[cf] = dict(ent, damage=tag)
            self.faults[tag] = self.faults.get(tag, 0) + 1

        if what == "trunc":
            n = int(op["frac"] * len(data))
            put(data[:n], "trunc")
            p["truncation_runs"] += 1
            self._run(kind, op["i"], op["v"], "exec", label=f"trunc@{n}/{len(data)}")
        elif what == "trunc_all":
            # (.py entries recompile in microseconds; .xsh / code entries go through the xonsh parser: complete enumeration only
            #  for small entries and at most twice per case, so that one run stays far below the per-run watchdog)
            complete = kind == "py" or (kind == "code" and len(data) < 400) or (self.full_trunc and len(data) <= 900 and self.n_full_xsh < 2)
            if complete and kind != "py":
                self.n_full_xsh += 1
            if complete:
                lengths = range(len(data))
                p["truncation_complete_enumerations"] += 1
            else:
                body = sorted({nl2 + 1 + int(((op["frac"] * 7919 + j * 0.6180339887) % 1.0) * (len(data) - nl2 - 1)) for j in range(24)})
                lengths = sorted(set(range(min(nl2 + 10, len(data)))) | set(body) | set(range(max(0, len(data) - 6), len(data))))
            for n in lengths:
                put(data[:n], "trunc")
                p["truncation_runs"] += 1
                self._run(kind, op["i"], op["v"], "exec", label=f"trunc@{n}/{len(data)}")
                if self.V:
                    return
        elif what in ("xonsh_ver", "py_ver"):
            # an entry written by ANOTHER xonsh / Python - near and far versions - holding bytecode that is
            # not the source's (what another version's compiler would have produced is not ours to run)
            foreign_body = marshal.dumps(compile("print('FOREIGN BYTECODE EXECUTED')\nFOREIGN = 1\n", "<foreign>", "exec"))
            xv = data[:nl1].decode()
            pv = data[nl1 + 1 : nl2].decode().split(".")
            if what == "xonsh_ver":
                stamps = (xv + "1", xv[:-1], xv + ".dev0", "0.0.0", xv.rsplit(".", 1)[0] + "." + str(int(xv.rsplit(".", 1)[1]) + 1 if xv.rsplit(".", 1)[1].isdigit() else 0), xv.upper() + "-x")
                stamp = stamps[int(op["frac"] * len(stamps)) % len(stamps)]
                if stamp.strip() == xv:
                    stamp = "0.0.0"
                put(stamp.encode() + b"\n" + data[nl1 + 1 : nl2 + 1] + foreign_body, "foreign_xonsh")
                label = f"entry stamped by xonsh {stamp!r} (running {xv!r})"
            else:
                maj, mnr, mic = pv[0], pv[1], pv[2]
                stamps = (
                    f"{maj}.{mnr}.{int(mic) + 1}.final.0",
                    f"{maj}.{mnr}.0.candidate.1",
                    f"{maj}.{mnr}.{mic}.alpha.2",
                    f"{maj}.{int(mnr) + 1}.0.final.0",
                    f"{maj}.{int(mnr) - 1}.9.final.0",
                    "2.7.18.final.0",
                    f"{maj}.{mnr}",
                    f"{maj}.{mnr}.{mic}.final.1",
                )
                stamp = stamps[int(op["frac"] * len(stamps)) % len(stamps)]
                put(data[: nl1 + 1] + stamp.encode() + b"\n" + foreign_body, "foreign_python")
                label = f"entry stamped by Python {stamp!r} (running {'.'.join(pv)!r})"
            p["foreign_version"] += 1
            self._run(kind, op["i"], op["v"], "exec", label=label)
        elif what == "garbage_header":
            put(b"\x00\xff\xfe garbage \x80\n\n" + data[nl2:], "garbage_header")
            p["garbage_header"] += 1
            self._run(kind, op["i"], op["v"], "exec", label="garbage header")
        elif what == "long_header":
            put(b"A" * 2000 + data, "long_header")
            p["garbage_header"] += 1
            self._run(kind, op["i"], op["v"], "exec", label="2000-byte header")
        elif what in ("bitflip", "garbage_tail"):
            # local damage of the body that marshal REFUSES to load (whatever it raises): an unreadable entry.
            # Flips that still load (or crash the interpreter) are not used - see assumptions.
            body = data[nl2 + 1 :]
            span = min(len(body), 72)
            for j in range(16):
                u = (op["frac"] * 7919 + j * 0.6180339887) % 1.0
                pos = int(u * span)
                if what == "bitflip":
                    bit = 7 if j % 2 == 0 else int(u * 977) % 8
                    bad = body[:pos] + bytes([body[pos] ^ (1 << bit)]) + body[pos + 1 :]
                else:
                    bad = body[: max(1, pos)] + bytes((int(u * 251) + i * 37) % 256 for i in range(len(body) - max(1, pos)))
                if self._marshal_verdict(bad) != "raises":
                    continue
                put(data[: nl2 + 1] + bad, what + "_refused")
                p["body_damage_refused_by_marshal"] += 1
                self._run(kind, op["i"], op["v"], "exec", label=f"{what} at body byte {pos} (marshal refuses the entry)")
                break
        elif what == "empty":
            put(b"", "empty")
            self._run(kind, op["i"], op["v"], "exec", label="empty entry")
        elif what == "header_only":
            put(data[: nl2 + 1], "header_only")
            self._run(kind, op["i"], op["v"], "exec", label="header only")
        elif what == "directory":
            os.unlink(cf)
            os.mkdir(cf)
            self.entries[cf] = dict(ent, damage="directory")
            self.faults["directory"] = self.faults.get("directory", 0) + 1
            p["directory_in_place"] += 1
            self._run(kind, op["i"], op["v"], "exec", label="directory in place of the entry")
            if os.path.isdir(cf):
                shutil.rmtree(cf)
                self.entries.pop(cf, None)
        elif what == "unreadable":
            os.chmod(cf, 0)
            self.entries[cf] = dict(ent, damage="unreadable")
            self.faults["unreadable"] = self.faults.get("unreadable", 0) + 1
            p["unreadable_entry"] += 1
            self._run(kind, op["i"], op["v"], "exec", label="unreadable entry (mode 000)")
            try:
                os.chmod(cf, 0o644)
                if self.entries.get(cf, {}).get("damage") == "unreadable":
                    self.entries[cf] = dict(ent, damage=None)
            except OSError:
                pass
        elif what == "dir_unwritable":
            d = os.path.dirname(cf)
            os.unlink(cf)
            self.entries.pop(cf, None)
            os.chmod(d, 0o555)
            self.faults["dir_unwritable"] = self.faults.get("dir_unwritable", 0) + 1
            p["dir_unwritable"] += 1
            self._run(kind, op["i"], op["v"], "exec", label="cache directory not writable")
            os.chmod(d, 0o755)

    # ------------------------------------------------------------------ run
    def run_case(self, case, tape, emit):
        scratch = procworld.scratch_for(os.getpid())
        os.makedirs(scratch, exist_ok=True)
        os.chmod(scratch, 0o755)
        try:
            os.chmod(os.path.dirname(scratch), 0o755)
        except OSError:
            pass
        top = os.path.join(scratch, "w")
        os.makedirs(top)
        os.chown(top, 65534, 65534)
        fd2 = os.open(os.path.join(scratch, "stderr"), os.O_WRONLY | os.O_CREAT | os.O_APPEND, 0o666)
        os.dup2(fd2, 2)
        os.dup2(fd2, 1)
        if os.getuid() == 0:
            os.setgroups([])
            os.setgid(65534)
            os.setuid(65534)
        self.XSH = XSH = procworld._WARM["XSH"]
        self.env = env = XSH.env
        st = case["settings"]
        self.switch = {k: st[k] for k in SWITCHES}
        self.gran, self.autostep, self.bound, self.full_trunc = st["gran"], st["autostep"], st["bound"], st["full_trunc"]
        self.clock = T0
        D = os.path.join(top, "data")
        os.makedirs(D)
        os.makedirs(os.path.join(top, "src"))
        env["XONSH_DATA_DIR"] = D
        env["XONSH_DEBUG"] = 0
        names = case.get("names") or ["s", "sib"]  # (replay files written before the sibling script existed carry no names)
        self.src = {"xsh": os.path.join(top, "src", names[0] + ".xsh"), "py": os.path.join(top, "src", "t.py")}
        self.sib = os.path.join(top, "src", names[1] + ".xsh")
        self.content = {}
        self.entries = {}
        self.cfmap = {}
        self.top = top
        self.last_log = {}
        self.V = []
        self.probes = {k: 0 for k in self.expected_probes}
        self.faults = {}
        self.states = set()
        self.trace = []
        self.nontrivial = False
        self.nruns = 0
        self.n_full_xsh = 0
        self.step = -1
        self._write_src("xsh", case["body0"][0], 1)
        self._write_src("py", case["body0"][1], 1)
        self.link = {"xsh": os.path.join(top, "src", "l.xsh"), "py": os.path.join(top, "src", "m.py")}
        self.via = None
        for k_ in ("xsh", "py"):
            os.symlink(os.path.basename(self.src[k_]), self.link[k_])
            # the link itself is old and never changes: only the file it points to is edited
            os.utime(self.link[k_], (T0 - 1000.0, T0 - 1000.0), follow_symlinks=False)
        last_code = {}
        for i, op in enumerate(case["ops"]):
            self.step = i
            k = op["k"]
            try:
                if k == "run":
                    self.via = op.get("via")
                    if self.via:
                        self.probes["run_through_symlink"] += 1
                    try:
                        self._run(op["t"], label="run via symlink" if self.via else None)
                    finally:
                        self.via = None
                elif k == "sib":
                    self._sibling_run()
                elif k == "code":
                    code = CODES[op["i"]].format(v=op["v"])
                    if any(c != code and c.strip().replace(" ", "") == code.strip().replace(" ", "") for c in last_code):
                        self.probes["code_near_duplicate"] += 1
                    if last_code.get(code) not in (None, op["mode"]):
                        self.probes["code_mode_switch"] += 1
                    last_code[code] = op["mode"]
                    self._run("code", op["i"], op["v"], op["mode"])
                elif k == "edit":
                    self.clock += self.autostep
                    old_m = os.stat(self.src[op["t"]]).st_mtime
                    self._write_src(op["t"], op["b"], op["v"])
                    if os.stat(self.src[op["t"]]).st_mtime == old_m:
                        self.probes["same_tick_edit"] += 1
                    self.trace.append(("edit", op["t"], op["b"], op["v"]))
                elif k == "touch":
                    self.clock += self.autostep
                    m = self._now()
                    os.utime(self.src[op["t"]], (m, m))
                    self.trace.append(("touch", op["t"]))
                elif k == "restore_old":
                    self._write_src(op["t"], op["b"], op["v"], mtime=T0 - 86400.0)
                    self.probes["older_copy_restored"] += 1
                    self.faults["older_copy_restored"] = self.faults.get("older_copy_restored", 0) + 1
                    self.trace.append(("restore_old", op["t"], op["b"], op["v"]))
                elif k == "tick":
                    self.clock += op["d"]
                    if op["d"] < 0:
                        self.probes["clock_backwards"] += 1
                        self.faults["clock_stepped_back"] = self.faults.get("clock_stepped_back", 0) + 1
                    self.trace.append(("tick", op["d"]))
                elif k == "switch":
                    self.switch[op["name"]] = op["val"]
                    self.trace.append(("switch", op["name"], op["val"]))
                elif k == "rebind":
                    if self.bound != op["bound"]:
                        self.probes["rebind_between_runs"] += 1
                    self.bound = op["bound"]
                    self.trace.append(("rebind", op["bound"]))
                elif k == "damage":
                    self._damage(op)
                elif k in ("fail_next", "crash_next"):
                    kind = op["target"]
                    key, cf, runner, mode = self._target(kind, op["i"], 1, "exec", strict=True)
                    if cf is None:
                        self._run(kind, op["i"], 1, "exec", label="prime")
                        key, cf, runner, mode = self._target(kind, op["i"], 1, "exec", strict=True)
                        if cf is None:
                            continue
                    site = int(op["sitefrac"] * 3)
                    if k == "fail_next":
                        plan = _CachePlan(op["mode"], site, None, op["err"], os.path.basename(cf))
                        _o, _r, fired, _cf = self._run(kind, op["i"], 1, "exec", plan=plan, label=f"{op['mode']} injected")
                        if fired:
                            self.probes["short_write_fired" if op["mode"] == "short" else "failing_call_fired"] += 1
                            self.faults[f"{op['mode']}@{plan.fired_what}"] = self.faults.get(f"{op['mode']}@{plan.fired_what}", 0) + 1
                            self._run(kind, op["i"], 1, "exec", label="run after failed cache access")
                    else:
                        pre = self._stat(cf)
                        sys.stdout.flush()
                        pid = os.fork()
                        if pid == 0:
                            try:
                                self._switches()
                                faultfs.PLAN = _CachePlan("crash", site, op["tear"], None, os.path.basename(cf))
                                self._observe(runner)
                            finally:
                                os._exit(0)
                        _, status = os.waitpid(pid, 0)
                        crashed = os.WIFEXITED(status) and os.WEXITSTATUS(status) == 137
                        post = self._stat(cf)
                        if post is not None and post != pre:
                            m = self._now()
                            os.utime(cf, (m, m))
                            cur = self.content[kind][:2] if kind in ("xsh", "py") else key[1]
                            self.entries[cf] = {"version": cur, "mtime": os.stat(cf).st_mtime, "ctx": self.bound, "mode": "exec", "damage": None if self._intact(cf) else "crash"}
                        if crashed:
                            self.probes["crash_fired"] += 1
                            self.faults["crash@site"] = self.faults.get("crash@site", 0) + 1
                        self.trace.append(("crash_next", kind, site, op["tear"], crashed))
                        self._run(kind, op["i"], 1, "exec", label="run after writer crash")
            except Exception:  # noqa: BLE001
                return {"harness_error": f"step {i} {op}: {traceback.format_exc()[-1500:]}"}
            if self.V:
                break
        digest = hashlib.blake2b(repr(self.trace).encode(), digest_size=8).hexdigest()
        seen = set()
        V = []
        for v in self.V:
            key = (v["clause"], repr(sorted(v["sig"].items())))
            if key not in seen:
                seen.add(key)
                V.append(v)
        shape = (tuple(sorted((k, repr(v)) for k, v in st.items())), tuple((o["k"], o.get("what"), o.get("t"), o.get("mode")) for o in case["ops"]))
        return {
            "violations": V[:4],
            "digest": digest,
            "tape": None,
            "stats": {"steps": len(case["ops"]), "judged_runs": self.nruns, "sim_time": max(0.0, self.clock - T0)},
            "faults": self.faults,
            "probes": self.probes,
            "nontrivial": self.nontrivial,
            "states": [hashlib.sha1(repr(s).encode()).hexdigest()[:12] for s in self.states],
            "key": hashlib.sha1(repr(shape).encode()).hexdigest()[:16],
            "summary": {"steps": len(case["ops"]), "runs": self.nruns},
        }

    def extra_coverage(self, agg):
        return {"steps": int(agg["stats"].get("steps", 0)), "judged_runs": int(agg["stats"].get("judged_runs", 0))}


ENGINE = C19()
