#!/bin/sh
# Nothing to build: checks import xonsh from $VERIF_REPO (default /repo) working tree.
REPO="${VERIF_REPO:-/repo}"
PYTHONPATH="$REPO" /venv/bin/python -c "
import sys
assert sys.version_info >= (3, 12) and hasattr(sys, 'monitoring'), 'need sys.monitoring'
import xonsh, os
assert os.path.realpath(xonsh.__file__).startswith(os.path.realpath('$REPO')), xonsh.__file__
print('setup ok: python', sys.version.split()[0], 'xonsh from', xonsh.__file__)
"
