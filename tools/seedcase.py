"""seedcase.py PROP RUN_SEED [TIER] -> writes /tmp/case-<PROP>-<seed>.json replay file (no tape) for that run seed."""
import importlib, json, random, sys
sys.path.insert(0, "/verif")
import checkmain
prop, seed = sys.argv[1], int(sys.argv[2])
tier = sys.argv[3] if len(sys.argv) > 3 else "quick"
eng = importlib.import_module(checkmain.ENGINES[prop]).ENGINE
case = eng.gen_case(random.Random(seed), tier, seed)
p = f"/tmp/case-{prop}-{seed}.json"
json.dump({"property": prop, "clause": "?", "case": case, "tape": None, "expect": {"digest": None}}, open(p, "w"), indent=1)
print(p)
