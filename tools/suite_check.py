"""suite_check.py DIR [OUT_PREFIX]: run the pinned baseline suite in DIR (a checkout of xonsh) and
compare with /root/.vp/BASELINE.json stable_pass.  Exit 0 iff every stable_pass test passed."""
import json, os, subprocess, sys, time
import xml.etree.ElementTree as ET

d = sys.argv[1]
pre = sys.argv[2] if len(sys.argv) > 2 else "/tmp/suite"
junit = pre + ".junit.xml"
t0 = time.time()
cmd = ["/venv/bin/python", "-m", "pytest", "-ra", "-q", "-p", "no:cacheprovider", "--timeout=900",
       "--continue-on-collection-errors", f"--junitxml={junit}"]
env = dict(os.environ)
env.pop("PYTHONPATH", None)
with open(pre + ".log", "w") as log:
    subprocess.run(cmd, cwd=d, stdout=log, stderr=subprocess.STDOUT, env=env)
base = json.load(open("/root/.vp/BASELINE.json"))
stable = set(base["stable_pass"])
passed = set()
for tc in ET.parse(junit).getroot().iter("testcase"):
    name = f"{tc.get('classname')}::{tc.get('name')}"
    if not any(ch.tag in ("failure", "error", "skipped") for ch in tc):
        passed.add(name)
missing = sorted(stable - passed)
print(f"suite in {d}: {len(passed)} passed, stable_pass={len(stable)}, stable tests not passing: {len(missing)}  ({time.time()-t0:.0f}s)")
for m in missing[:40]:
    print("  MISSING", m)
sys.exit(1 if missing else 0)
