"""dump2replay.py DUMP.jsonl CLAUSE [INDEX] -> writes /tmp/rp-<clause>-<i>.json (seed-based replay, no tape)."""
import json, sys
dump, clause = sys.argv[1], sys.argv[2]
want = int(sys.argv[3]) if len(sys.argv) > 3 else 0
i = 0
for l in open(dump):
    d = json.loads(l)
    for v in d["violations"]:
        if v["clause"] == clause:
            if i == want:
                doc = {"property": "?", "clause": clause, "case": d["case"], "tape": None, "expect": {"digest": None, "message": v["msg"]}}
                p = f"/tmp/rp-{clause}-{i}.json"
                json.dump(doc, open(p, "w"), indent=1)
                print(p)
                sys.exit(0)
            i += 1
print("not found")
